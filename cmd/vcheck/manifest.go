package main

import (
	"encoding/json"
	"fmt"
	"os"
	"sort"
)

var allProps = []string{"C01", "C02", "C03", "C04", "C05", "C06", "C07", "C08", "C09", "C10", "C11", "C12", "C13", "C14", "C15", "C16", "C17", "C18", "C19", "C20"}

// writeManifest prints MANIFEST.json from the registered properties.
func writeManifest() {
	var checks []map[string]interface{}
	var na []map[string]string
	ids := append([]string(nil), allProps...)
	sort.Strings(ids)
	for _, id := range ids {
		p, ok := properties[id]
		if !ok {
			na = append(na, map[string]string{"property_id": id, "reason": "monitor not built yet in this round (runtime monitoring applies; see DESIGN.md §6): not claimed until its check exists"})
			continue
		}
		text := p.Text
		if text == "" {
			text = "runtime monitoring: the real plugin built from /repo's working tree is run on generated requests, its output is compiled with protoc-gen-gogo's structs and executed under the workload described in the evidence rule while deterministic oracles watch every execution; held on the explored cases only"
		}
		tech := p.Technique
		if tech == "" {
			tech = "runtime monitoring: reference-model oracle over observed executions of the generated code"
		}
		checks = append(checks, map[string]interface{}{
			"property_id":         id,
			"quick_cmd":           "./run.sh " + id + " quick",
			"thorough_cmd":        "./run.sh " + id + " thorough",
			"evidence_file":       "/verif/evidence/" + id + ".json",
			"replay_cmd_template": "./run.sh " + id + " --replay {path}",
			"engine":              "vcheck",
			"level_claimed":       map[string]string{"category": p.Level, "text": text, "design_ref": "DESIGN.md §6 " + id},
			"level_note":          "trusted: Go toolchain, gogo/protobuf v1.3.2 (protoc-gen-gogo), terraform-plugin-framework v0.10.0, the harness's reference model (internal/refmodel) and generators; nothing is claimed for descriptors, configurations or values outside the explored corpus",
			"technique":           tech,
		})
	}
	m := map[string]interface{}{
		"version":   1,
		"setup_cmd": "./setup.sh",
		"hooks": map[string]interface{}{
			"guard":            "verif",
			"enable":           "go build -tags verif (no source hooks exist: every property is observed at the plugin's process boundary or at the boundary of the generated functions; instrumentation is compiler-inserted: -race, -cover)",
			"baseline_off_cmd": "cd /repo && GOFLAGS=-mod=mod GOPROXY=off GOSUMDB=off GOTOOLCHAIN=local go test -vet=off -count=1 ./...",
			"source_commits":   []string{},
			"add_only":         true,
		},
		"engines": []map[string]interface{}{{"name": "vcheck", "path": "cmd/vcheck", "serves_properties": ids,
			"kind_free_text": "orchestrator: corpus -> plugin child processes -> scratch Go workspace -> go build -> driver child processes with runtime monitors (rt/) -> offline checkers -> evidence"}},
		"checks": checks,
		"notes":  "Genuine defects found by the monitors are either repaired by 'fix:' commits in /repo or listed in known_findings.json (see DESIGN.md §9).",
	}
	if len(na) > 0 {
		m["not_applicable"] = na
	} else {
		m["not_applicable"] = []map[string]string{}
	}
	b, _ := json.MarshalIndent(m, "", " ")
	fmt.Fprintln(os.Stdout, string(b))
}

package main

import (
	"fmt"
	"math/rand"
	"reflect"
	"sort"
	"strings"

	"verif/internal/descgen"
	"verif/internal/ir"
	"verif/internal/pipeline"
	"verif/internal/refmodel"
	"verif/rt"
	"verif/rt/spec"
)

// ---------------------------------------------------------------------------
// C13 separate-package generation behaves like same-package generation

func checkC13(r *Run) {
	var cases []*pipeline.Case
	var pairs []rt.Pair
	add := func(mk func() *descgen.Entry, override bool) {
		a := caseFrom(mk())
		b := separate(mk(), override)
		// every third pair puts the structs at a gopkg.in-style import path
		b.DottedPath = len(pairs)%3 == 1
		// ... or at a path whose last element is no identifier and not the package name
		b.HyphenPath = len(pairs)%6 == 5
		// ... or in another module whose path begins with a digit
		b.DigitPath = len(pairs)%6 == 3 && !override
		if b.DottedPath {
			b.Tags = append(b.Tags, "dotted-import-path")
		}
		label := fmt.Sprintf("separate-package/override=%v", override)
		if len(pairs)%5 == 1 && a.File.Dep == nil {
			// a struct package whose Go name is not all lower case
			a.MixedCasePkg, b.MixedCasePkg = true, true
			b.Tags = append(b.Tags, "mixed-case-package-name")
			label += "/mixed-case-package"
		}
		switch {
		case len(pairs)%8 == 6:
			// the target package name is a prefix of the struct package name
			b.PrefixTarget = true
			b.Tags = append(b.Tags, "target-prefix-of-struct-package")
			label += "/prefix-target"
		case len(pairs)%4 == 2:
			// the terraform package is named like the struct package (another directory)
			b.SameName = true
			b.Tags = append(b.Tags, "same-package-name")
			label += "/same-name"
		case !override && len(pairs)%4 == 3:
			// the override is keyed by a full import path (default_package_name itself)
			b.FullPathOverride = true
			b.Tags = append(b.Tags, "override-keyed-by-full-path")
			label += "/full-path-override"
		case override && len(pairs)%4 == 0:
			// go_package points elsewhere: only import_path_overrides knows where the structs are
			b.ForeignGoPackage = true
			b.Tags = append(b.Tags, "foreign-go-package")
			label += "/foreign-go-package"
		}
		if len(pairs)%4 == 1 {
			// a target package name with a capital letter is taken as it is
			b.MixedCaseTarget = true
			b.Tags = append(b.Tags, "mixed-case-target-package")
		}
		if len(pairs)%3 == 0 {
			// overrides keyed by string prefixes of the struct import path that are no path prefixes match nothing
			b.DecoyPrefixOverrides = true
			b.Tags = append(b.Tags, "decoy-prefix-overrides")
		}
		cases = append(cases, a, b)
		pairs = append(pairs, rt.Pair{A: a.Name, B: b.Name, PRF: a.Name, Label: label})
	}
	cur := []func() *descgen.Entry{descgen.K1, descgen.K2, descgen.K3, descgen.K4, descgen.K5, func() *descgen.Entry { return descgen.K6(0) },
		func() *descgen.Entry { return descgen.K6(1) }, descgen.K7, descgen.K8, descgen.K9, func() *descgen.Entry { return descgen.K10(false) }, func() *descgen.Entry { return descgen.K10(true) }}
	for i, mk := range cur {
		if r.thorough() || i%2 == 0 || i == 3 || i == 11 {
			add(mk, i%3 == 0)
		}
	}
	// a struct package called `types`, resolved through the alias form of the README
	for _, mk := range []func() *descgen.Entry{descgen.K5, descgen.K3} {
		add(mk, true)
		b := cases[len(cases)-1]
		b.DottedPath, b.HyphenPath, b.DigitPath, b.SameName, b.ForeignGoPackage, b.FullPathOverride, b.MixedCasePkg = false, false, false, false, false, false, false
		cases[len(cases)-2].MixedCasePkg = false
		b.TypesNamedPkg = true
		b.Name += "t"
		b.Tags = append(b.Tags, "struct-package-named-types")
		pairs[len(pairs)-1].B = b.Name
		pairs[len(pairs)-1].Label = "separate-package/override=true/package-named-types"
		if !r.thorough() {
			break
		}
	}
	// a struct package whose import path ends in "time", with a struct-package type called Duration that is
	// NOT the configured duration type (a plain integer cast): `…uptime.Duration` is no time.Duration
	for _, mk := range []func() *descgen.Entry{descgen.K1, descgen.K3} {
		mk := mk
		add(func() *descgen.Entry {
			e := mk()
			e.Cfg.DurationCustomType = "BillingDuration"
			return descgen.Rename(e, e.Name+"u")
		}, false)
		a, b := cases[len(cases)-2], cases[len(cases)-1]
		b.DottedPath, b.HyphenPath, b.DigitPath, b.SameName, b.ForeignGoPackage, b.FullPathOverride, b.MixedCasePkg, b.PrefixTarget = false, false, false, false, false, false, false, false
		a.MixedCasePkg = false
		b.TimeSuffixPath = true
		b.Tags = append(b.Tags, "struct-import-path-ends-in-time")
		pairs[len(pairs)-1].Label = "separate-package/override=false/import-path-ends-in-time"
		if !r.thorough() {
			break
		}
	}
	// go_package given as a bare path whose last element is no identifier: the package name is gogo's cleaned form of it
	for _, mk := range []func() *descgen.Entry{descgen.K7, descgen.K5} {
		mk := mk
		add(func() *descgen.Entry { e := mk(); return descgen.Rename(e, e.Name+"c") }, false)
		a, b := cases[len(cases)-2], cases[len(cases)-1]
		b.DottedPath, b.HyphenPath, b.DigitPath, b.SameName, b.ForeignGoPackage, b.FullPathOverride, b.MixedCasePkg, b.PrefixTarget, b.DecoyPrefixOverrides = false, false, false, false, false, false, false, false, false
		a.MixedCasePkg = false
		b.CleanedPkgName = true
		b.Tags = append(b.Tags, "go-package-path-needs-cleaning")
		pairs[len(pairs)-1].Label = "separate-package/override=false/cleaned-package-name"
		if !r.thorough() {
			break
		}
	}
	// the isolated shapes (map<string,bytes>, lists and maps of empty messages, by-value duration branches ...)
	for i, e := range descgen.Exotic() {
		if r.thorough() || i%2 == 0 {
			name := e.Name
			add(func() *descgen.Entry { return descgen.CuratedByName(name) }, i%4 == 0)
		}
	}
	n := r.pick(5, 110)
	for i := 0; i < n; i++ {
		i := i
		add(func() *descgen.Entry { return descgen.Random(r.Seed, i, descgen.RandOpt{}) }, i%2 == 0)
	}
	r.generate(cases)
	r.compile(cases)
	r.drivePairs("C13", cases, pairs)
}

// ---------------------------------------------------------------------------
// C15 declaration order

func checkC15(r *Run) {
	type mk = func() *descgen.Entry
	var makers []mk
	cur := []mk{descgen.K16, descgen.K1, descgen.K3, descgen.K5, func() *descgen.Entry { return descgen.K6(0) }, func() *descgen.Entry { return descgen.K6(3) }, func() *descgen.Entry { return descgen.K6(5) }, descgen.K7, descgen.K9, descgen.K8, func() *descgen.Entry { return descgen.K10(false) }, descgen.K2, descgen.K4}
	for i, m := range cur {
		if r.thorough() || i < 10 {
			makers = append(makers, m)
		}
	}
	// the struct package reached under two spellings (alias + override as in the README for message types, the
	// full path in a cast type): sort-on only, nothing lives at that path
	for v := 0; v < 2; v++ {
		v := v
		makers = append(makers, func() *descgen.Entry {
			level, ref := descgen.F("Level", descgen.Sc(ir.Int64), descgen.Cast("example.com/api/types.Level")), descgen.F("Ref", descgen.MsgT("AliasLeaf"))
			pair := descgen.M("AliasPair", level, ref)
			if v == 1 {
				pair = descgen.M("AliasPair", ref, level)
			}
			f := &ir.File{Name: fmt.Sprintf("k16alias%d.proto", v), Package: fmt.Sprintf("k16alias%d", v), Messages: []*ir.Message{pair, descgen.M("AliasLeaf", descgen.F("Name"))}}
			descgen.AutoComments(f)
			c := descgen.BaseConfig("AliasPair")
			c.DefaultPackageName, c.TargetPackageName = "types", "tfschema"
			c.ImportPathOverrides = map[string]string{"types": "example.com/api/types"}
			return &descgen.Entry{Name: fmt.Sprintf("k16alias%d", v), File: f, Cfg: c, Tags: []string{"l1-only", "two-spellings-of-one-package"}}
		})
	}
	n := r.pick(4, 70)
	for i := 0; i < n; i++ {
		i := i
		makers = append(makers, func() *descgen.Entry { return descgen.Random(r.Seed, i, descgen.RandOpt{}) })
	}
	perms := r.pick(3, 8)
	// sort on: byte-identical files (L1)
	var l1 []*pipeline.Case
	type group struct {
		base  *pipeline.Case
		perms []*pipeline.Case
	}
	var groups []group
	for mi, m := range makers {
		e := m()
		e.Cfg.Sort, e.Cfg.SortSet = true, true
		base := caseFrom(e)
		base.NoWrite = true
		g := group{base: base}
		for k := 0; k < perms; k++ {
			pe := m()
			pe.Cfg.Sort, pe.Cfg.SortSet = true, true
			descgen.Permute(pe, rand.New(rand.NewSource(r.Seed*131+int64(mi)*17+int64(k))))
			pc := caseFrom(pe)
			pc.Name = fmt.Sprintf("%s_p%d", e.Name, k) // only the config file name differs; file and package names stay
			pc.NoWrite = true
			g.perms = append(g.perms, pc)
		}
		groups = append(groups, g)
		l1 = append(l1, base)
		l1 = append(l1, g.perms...)
	}
	r.generate(l1)
	for _, g := range groups {
		if g.base.GenErr != "" {
			r.violate("sort-on/base-failed", g.base.Name, "", "", g.base.GenErr, nil)
			continue
		}
		for _, p := range g.perms {
			r.Evaluations++
			r.distinctAdd("sort-on/" + p.Name)
			if p.TFContent != g.base.TFContent {
				r.violate("sort-on/bytes-differ", g.base.Name, "", p.Name, "with sort enabled a permutation of the declaration order changed the generated file: "+firstDiff(g.base.TFContent, p.TFContent), map[string]interface{}{"order": fieldOrder(p.File)})
			}
		}
	}
	if len(groups) > 0 && len(groups[0].perms) > 0 {
		r.sample(map[string]interface{}{"descriptor": groups[0].base.Name, "original_order": fieldOrder(groups[0].base.File), "permuted_order": fieldOrder(groups[0].perms[0].File), "sort": true, "file_bytes": len(groups[0].base.TFContent)})
	}
	// sort off: same schema and converter behaviour (L2 differential)
	var cases []*pipeline.Case
	var pairs []rt.Pair
	for mi, m := range makers {
		e := m()
		if contains(e.Tags, "l1-only") {
			continue
		}
		e.Cfg.Sort, e.Cfg.SortSet = false, true
		prfName := e.Name
		a := caseFrom(descgen.Rename(e, e.Name+"o0"))
		cases = append(cases, a)
		np := r.pick(1, 3)
		for k := 0; k < np; k++ {
			pe := m()
			pe.Cfg.Sort, pe.Cfg.SortSet = false, true
			descgen.Permute(pe, rand.New(rand.NewSource(r.Seed*137+int64(mi)*19+int64(k)+1000)))
			b := caseFrom(descgen.Rename(pe, fmt.Sprintf("%so%d", pe.Name, k+1)))
			cases = append(cases, b)
			pairs = append(pairs, rt.Pair{A: a.Name, B: b.Name, PRF: prfName, Label: "sort-off/permuted"})
		}
	}
	r.generate(cases)
	r.compile(cases)
	r.drivePairs("C15", cases, pairs)
}

func fieldOrder(f *ir.File) map[string][]string {
	out := map[string][]string{}
	var order []string
	for _, m := range f.Messages {
		order = append(order, m.Name)
		for _, fl := range m.Fields {
			out[m.Name] = append(out[m.Name], fl.Name)
		}
	}
	out["(messages)"] = order
	return out
}

func firstDiff(a, b string) string {
	n := len(a)
	if len(b) < n {
		n = len(b)
	}
	i := 0
	for i < n && a[i] == b[i] {
		i++
	}
	lo := i - 60
	if lo < 0 {
		lo = 0
	}
	ha, hb := i+80, i+80
	if ha > len(a) {
		ha = len(a)
	}
	if hb > len(b) {
		hb = len(b)
	}
	return fmt.Sprintf("first difference at byte %d: %q vs %q", i, a[lo:ha], b[lo:hb])
}

// ---------------------------------------------------------------------------
// C11 field-addressed options

// specPaths indexes the attributes of a case model by field path.
func specPaths(c *spec.Case) map[string]*spec.Attr {
	out := map[string]*spec.Attr{}
	var walk func(m *spec.Msg)
	walk = func(m *spec.Msg) {
		for _, a := range m.Attrs {
			out[a.Path] = a
			if a.Msg != nil {
				walk(a.Msg)
			}
		}
	}
	for _, r := range c.Roots {
		walk(r)
	}
	return out
}

// editedPaths compares two models and returns the field paths whose promised
// attribute differs (excluded ones separately).
func editedPaths(a, b *spec.Case) (schema, all []string) {
	pa, pb := specPaths(a), specPaths(b)
	for p, x := range pa {
		y, ok := pb[p]
		if !ok {
			continue
		}
		if x.Excluded != y.Excluded {
			all = append(all, p)
			continue
		}
		if x.Attr != y.Attr || x.Required != y.Required || x.Computed != y.Computed || x.Sensitive != y.Sensitive ||
			!reflect.DeepEqual(x.Validators, y.Validators) || !reflect.DeepEqual(x.PlanModifiers, y.PlanModifiers) {
			schema = append(schema, p)
		}
	}
	// an excluded child of a nullable embedded message changes when the embed is
	// allocated, which its siblings observe: the whole embed is coupled to it
	seen := map[string]bool{}
	for _, p := range all {
		seen[p] = true
	}
	for _, p := range append([]string(nil), all...) {
		x := pa[p]
		if !x.InEmbedPtr() {
			continue
		}
		parent := strings.TrimSuffix(p, "."+x.Proto)
		for q, y := range pa {
			if !seen[q] && y.InEmbedPtr() && strings.TrimSuffix(q, "."+y.Proto) == parent && len(y.Access) > 0 && len(x.Access) > 0 && y.Access[0].GoName == x.Access[0].GoName {
				seen[q] = true
				all = append(all, q)
			}
		}
	}
	sort.Strings(schema)
	sort.Strings(all)
	return
}

// applyOption adds one field-addressed option under one key.
func applyOption(c *ir.Config, opt, key string, k int) {
	switch opt {
	case "exclude_fields":
		c.ExcludeFields = append(c.ExcludeFields, key)
	case "required_fields":
		c.RequiredFields = append(c.RequiredFields, key)
	case "computed_fields":
		c.ComputedFields = append(c.ComputedFields, key)
	case "sensitive_fields":
		c.SensitiveFields = append(c.SensitiveFields, key)
	case "name_overrides":
		if c.NameOverrides == nil {
			c.NameOverrides = map[string]string{}
		}
		c.NameOverrides[key] = fmt.Sprintf("renamed_attr_%d", k)
	case "validators":
		if c.Validators == nil {
			c.Validators = map[string][]string{}
		}
		c.Validators[key] = []string{descgen.V(fmt.Sprintf("val%d", k)), descgen.V("second")}
	case "plan_modifiers":
		if c.PlanModifiers == nil {
			c.PlanModifiers = map[string][]string{}
		}
		c.PlanModifiers[key] = []string{descgen.PM(fmt.Sprintf("pm%d", k)), descgen.USFU}
	}
}

var fieldOptions = []string{"exclude_fields", "required_fields", "computed_fields", "sensitive_fields", "name_overrides", "validators", "plan_modifiers"}

func checkC11(r *Run) {
	type mk = func() *descgen.Entry
	bases := []mk{descgen.K9, descgen.K5, func() *descgen.Entry { return descgen.K6(0) }, descgen.K7}
	nr := r.pick(2, 36)
	for i := 0; i < nr; i++ {
		i := i
		bases = append(bases, func() *descgen.Entry { return descgen.Random(r.Seed, i, descgen.RandOpt{Plain: true, MultiPath: true}) })
	}
	perBase := r.pick(14, 40)
	rnd := rand.New(rand.NewSource(r.Seed*31 + 7))
	var cases []*pipeline.Case
	var pairs []rt.Pair
	total := 0
	for _, m := range bases {
		if total > r.pick(110, 600) {
			break
		}
		be := m()
		baseName := be.Name
		// a plain base configuration: no per-field options at all
		plain := func(e *descgen.Entry) {
			c := e.Cfg
			c.ExcludeFields, c.RequiredFields, c.ComputedFields, c.SensitiveFields = nil, nil, nil, nil
			c.NameOverrides, c.Validators, c.PlanModifiers = nil, nil, nil
		}
		plain(be)
		base := caseFrom(descgen.Rename(be, baseName+"b"))
		cases = append(cases, base)
		occ := descgen.Occurrences(be.File, be.Cfg.Types)
		// fields below a message-typed custom field are no attributes (the hooks own the whole field)
		{
			kept := occ[:0:0]
			for _, o := range occ {
				below := false
				for cp := range be.Cfg.CustomTypes {
					if strings.HasPrefix(o.Path, cp+".") {
						below = true
					}
				}
				if !below {
					kept = append(kept, o)
				}
			}
			occ = kept
		}
		if len(occ) == 0 {
			continue
		}
		// occurrences whose full path ends in "<exported type>.<field>" (a field named like an
		// exported type, README: `Metadata Metadata = 1`) are drawn more often: a key lookup that
		// is not exact would hit the exported type as well
		var prio []int
		for i, o := range occ {
			for _, t := range be.Cfg.Types {
				if strings.HasSuffix(o.Path, "."+t+"."+o.Field.Name) {
					prio = append(prio, i)
				}
			}
		}
		// ... and so are occurrences whose Message.Field key is, as plain text, the tail of another field's path
		// (`Tag.Label` vs `User.PriceTag.Label`)
		for i, o := range occ {
			for _, o2 := range occ {
				if o2.Key != o.Key && strings.HasSuffix(o2.Path, o.Key) {
					prio = append(prio, i)
					break
				}
			}
		}
		for k := 0; k < perBase; k++ {
			opt := fieldOptions[k%len(fieldOptions)]
			o := occ[rnd.Intn(len(occ))]
			keyForm := (k/len(fieldOptions))%2 == 1
			if len(prio) > 0 && (k%2 == 0 || (keyForm && k%3 != 2)) {
				o = occ[prio[rnd.Intn(len(prio))]]
			}
			if opt == "exclude_fields" {
				// exclusions that would leave a message without any field are outside the statement
				live := 0
				for _, fl := range o.Msg.Fields {
					if !fl.Embed {
						live++
					}
				}
				if live < 2 {
					continue
				}
			}
			form := "path"
			key := o.Path
			if (k/len(fieldOptions))%2 == 1 {
				form, key = "message.field", o.Key
			}
			ve := m()
			plain(ve)
			applyOption(ve.Cfg, opt, key, k)
			v := caseFrom(descgen.Rename(ve, fmt.Sprintf("%sv%d", baseName, k)))
			v.Tags = append(v.Tags, opt, form)
			cases = append(cases, v)
			pairs = append(pairs, rt.Pair{A: base.Name, B: v.Name, PRF: baseName, Label: opt + "/" + form, ModelChecks: true})
			total++
		}
		// every Message.Field key that is, as plain text, the tail of another field's path gets its own
		// variants (the key must not reach that other field)
		seenTail := map[string]bool{}
		for _, o := range occ {
			tail := false
			for _, o2 := range occ {
				if o2.Key != o.Key && strings.HasSuffix(o2.Path, o.Key) {
					tail = true
				}
			}
			if !tail || seenTail[o.Key] || len(seenTail) >= 3 {
				continue
			}
			seenTail[o.Key] = true
			for j, opt := range []string{"exclude_fields", "name_overrides", "sensitive_fields"} {
				ve := m()
				plain(ve)
				applyOption(ve.Cfg, opt, o.Key, 700+j)
				v := caseFrom(descgen.Rename(ve, fmt.Sprintf("%st%d%d", baseName, len(seenTail), j)))
				v.Tags = append(v.Tags, opt, "message.field/textual-tail")
				cases = append(cases, v)
				pairs = append(pairs, rt.Pair{A: base.Name, B: v.Name, PRF: baseName, Label: opt + "/message.field-is-tail-of-another-path", ModelChecks: true})
				total++
			}
		}
		// a field literally named `key` / `value` next to a map field (the names of the synthetic map entry),
		// addressed by its Message.Field key; and a message-typed field whose message embeds another one,
		// addressed by its path (the embedding field shares that path)
		{
			done := map[string]bool{}
			for _, o := range occ {
				hasMap, hasEmbed := false, false
				for _, fl := range o.Msg.Fields {
					if fl.Card == ir.Map {
						hasMap = true
					}
				}
				if o.Field.Kind == ir.KMessage && o.Field.Card == ir.Single && o.Field.CustomType == "" {
					if sub := be.File.Msg(o.Field.Ref, o.Field.RefDep); sub != nil {
						for _, fl := range sub.Fields {
							if fl.Embed {
								hasEmbed = true
							}
						}
					}
				}
				var opts []string
				key := o.Key
				label := ""
				switch {
				case o.Field.Name == "value" && hasMap && !done["kv"]:
					done["kv"] = true
					opts, label = []string{"exclude_fields", "sensitive_fields"}, "message.field/named-like-map-entry"
					live := 0
					for _, fl := range o.Msg.Fields {
						if !fl.Embed {
							live++
						}
					}
					if live < 2 {
						continue
					}
				case hasEmbed && !done["embed"]:
					done["embed"] = true
					key = o.Path
					opts, label = []string{"required_fields", "sensitive_fields", "computed_fields"}, "path/of-a-message-that-embeds"
				default:
					continue
				}
				for j, opt := range opts {
					ve := m()
					plain(ve)
					applyOption(ve.Cfg, opt, key, 800+j)
					v := caseFrom(descgen.Rename(ve, fmt.Sprintf("%sx%d%d", baseName, len(done), j)))
					v.Tags = append(v.Tags, opt, label)
					cases = append(cases, v)
					pairs = append(pairs, rt.Pair{A: base.Name, B: v.Name, PRF: baseName, Label: opt + "/" + label, ModelChecks: true})
					total++
				}
			}
		}
		// layered edits: the base already configures a field that occurs at several paths under its
		// Message.Field key; the variant adds an explicit empty list under ONE full path
		// (only that occurrence loses the option)
		count := map[string]int{}
		for _, o := range occ {
			count[o.Key]++
		}
		var multi []int
		for i, o := range occ {
			if count[o.Key] > 1 {
				multi = append(multi, i)
			}
		}
		for j := 0; j < r.pick(2, 4) && len(multi) > 0; j++ {
			o := occ[multi[rnd.Intn(len(multi))]]
			opt := []string{"validators", "plan_modifiers"}[j%2]
			mkBase := func() *descgen.Entry {
				e := m()
				plain(e)
				applyOption(e.Cfg, opt, o.Key, 900+j)
				return e
			}
			lb := caseFrom(descgen.Rename(mkBase(), fmt.Sprintf("%sl%d", baseName, j)))
			ve := mkBase()
			if opt == "validators" {
				ve.Cfg.Validators[o.Path] = []string{}
			} else {
				ve.Cfg.PlanModifiers[o.Path] = []string{}
			}
			v := caseFrom(descgen.Rename(ve, fmt.Sprintf("%sl%de", baseName, j)))
			v.Tags = append(v.Tags, opt, "path-empty-list")
			cases = append(cases, lb, v)
			pairs = append(pairs, rt.Pair{A: lb.Name, B: v.Name, PRF: baseName, Label: opt + "/path-empty-list-over-key", ModelChecks: true})
			total++
		}
		// an excluded field leaves its attribute name free: the base excludes X, the variant also
		// renames a sibling of X to X's attribute name
		for j := 0; j < r.pick(1, 3); j++ {
			o := occ[rnd.Intn(len(occ))]
			var sib *ir.Field
			live := 0
			for _, fl := range o.Msg.Fields {
				if !fl.Embed {
					live++
					if fl != o.Field && sib == nil {
						sib = fl
					}
				}
			}
			if live < 3 || sib == nil {
				continue
			}
			mkBase := func() *descgen.Entry {
				e := m()
				plain(e)
				applyOption(e.Cfg, "exclude_fields", o.Key, 0)
				return e
			}
			be2 := mkBase()
			xa := specPaths(refmodel.Build("x", be2.File, be2.Cfg))[o.Path]
			if xa == nil {
				continue
			}
			lb := caseFrom(descgen.Rename(be2, fmt.Sprintf("%sn%d", baseName, j)))
			ve := mkBase()
			ve.Cfg.NameOverrides = map[string]string{o.Msg.Name + "." + sib.Name: xa.Attr}
			v := caseFrom(descgen.Rename(ve, fmt.Sprintf("%sn%dr", baseName, j)))
			v.Tags = append(v.Tags, "name_overrides", "reuses-excluded-name")
			cases = append(cases, lb, v)
			pairs = append(pairs, rt.Pair{A: lb.Name, B: v.Name, PRF: baseName, Label: "name_overrides/reuses-excluded-name", ModelChecks: true})
			total++
		}
	}
	r.generate(cases)
	// the edit sets come from the reference model
	byName := map[string]*pipeline.Case{}
	for _, c := range cases {
		byName[c.Name] = c
	}
	for i := range pairs {
		a, b := byName[pairs[i].A], byName[pairs[i].B]
		pairs[i].DropSchema, pairs[i].DropAll = editedPaths(a.Spec, b.Spec)
		r.Counters["option:"+pairs[i].Label]++
		r.Counters["edited-occurrences"] += len(pairs[i].DropSchema) + len(pairs[i].DropAll)
		if len(pairs[i].DropSchema)+len(pairs[i].DropAll) == 0 {
			r.Inconclusive = append(r.Inconclusive, fmt.Sprintf("pair %s: the model sees no edit", pairs[i].B))
		}
	}
	r.compile(cases)
	r.drivePairs("C11", cases, pairs)
}

func init() {
	register(&Property{ID: "C13", Level: "exploration",
		Technique: "runtime monitoring: differential execution of two builds of the generated code on identical logical inputs",
		Rule:      "pairs = (same-package build, separate-package build) of the same descriptor: curated corpus (cast types, enums, oneof wrappers, embeds, maps of messages, dependency file in its own package) and seeded random descriptors, default_package_name either the import path or an alias resolved by import_path_overrides; both layouts are compiled (the separate one as two Go packages) and linked into one driver; per pair and selected type the run-time schema and N logical inputs (CopyTo into an empty object, in-place refresh, CopyFrom of a plan into a fresh and a pre-filled target, apply echo) are rendered canonically on both sides and must be equal (counter events-compared); distinct = distinct pairs",
		Check:     checkC13})
	register(&Property{ID: "C15", Level: "exploration",
		Technique: "runtime monitoring: byte comparison of plugin outputs (sort on) and differential execution of the generated code (sort off) across permuted descriptors",
		Rule:      "descriptors = curated corpus + seeded random descriptors; per descriptor k pseudo-random permutations of the field lists of every message and of the message list (numbers, names, oneof membership and comments kept); sort on: the plugin output for every permutation must be byte-identical to the original; sort off: original and permuted descriptor are both compiled and linked, and schema plus converter behaviour on identical logical inputs must be equal (counter events-compared); distinct = distinct (descriptor, permutation) pairs",
		Check:     checkC15})
	register(&Property{ID: "C11", Level: "exploration",
		Technique: "runtime monitoring: differential execution (base configuration vs one added option) + reference-model oracle on the variant",
		Rule:      "bases = descriptors in which message types occur at several paths (k9, k5, k6a, k7 and seeded random multi-path descriptors) under a configuration without per-field options; variants = base + exactly one option (exclude_fields, required_fields, computed_fields, sensitive_fields, name_overrides, validators, plan_modifiers; counters option:*) on a pseudo-randomly chosen field occurrence, keyed by the full path or by Message.Field; the reference model yields the set of edited occurrences (counter edited-occurrences); oracle: the variant's run-time schema matches the model (addressed occurrences edited, both key forms), and after removing exactly the edited occurrences base and variant agree on the schema and on every converter event for identical logical inputs (excluded fields: absent from schema and objects, untouched by CopyFrom); distinct = distinct (base, option, key form, field) variants",
		Check:     checkC11})
}

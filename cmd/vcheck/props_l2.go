package main

import (
	"verif/internal/descgen"
	"verif/internal/pipeline"
)

// curatedCases returns pipeline cases for the named curated entries (all when empty).
func curatedCases(names ...string) []*pipeline.Case {
	var out []*pipeline.Case
	for _, e := range descgen.Curated() {
		if len(names) == 0 {
			out = append(out, caseFrom(e))
			continue
		}
		for _, n := range names {
			if e.Name == n {
				out = append(out, caseFrom(e))
			}
		}
	}
	return out
}


const latticeRule = "cases = curated corpus (every construct of D) + seeded random descriptors; per selected type N struct values drawn from the state lattice (modes zero/mixed/sparse/dense/boundary); distinct = distinct (case, type, shape signature) triples, the signature being the vector of lattice states (nil/empty/len, pointer nil-ness, active oneof branch, embed state) along the spec tree; "

// stdL2 is the common flow of the value-driven L2 properties.
func stdL2(prop string, quickRandom, thoroughRandom int) func(r *Run) {
	return func(r *Run) {
		cases := curatedCases()
		for _, e := range descgen.Exotic() {
			cases = append(cases, caseFrom(e))
		}
		cases = append(cases, randomCases(r, r.pick(quickRandom, thoroughRandom))...)
		r.generate(cases)
		r.compile(cases)
		r.drive(prop, cases, 0)
	}
}

func init() {
	register(&Property{ID: "C03", Level: "exploration",
		Rule:  latticeRule + "one evaluation = one CopyTo into an empty schema-typed object followed by the conformance walk (presence, value type, schema type, no unknown, recursively) and the framework acceptance checks (ToTerraformValue type, ValueFromTerraform, tfsdk.State.Set)",
		Check: stdL2("C03", 8, 150)})
	register(&Property{ID: "C04", Level: "exploration",
		Rule:  latticeRule + "one evaluation = CopyTo into an empty object, CopyFrom into a fresh struct, comparison of both structs in the documented normal form",
		Check: stdL2("C04", 8, 150)})
	const planRule = "cases = curated corpus + seeded random descriptors; per selected type N plan objects: a fully known value of the schema's Terraform type (values inside the range of the Go fields, known zero values included, at most one active branch per oneof group) decoded by the schema's own attribute type as req.Plan.Get does, then a pseudo-random null/unknown mask (modes mixed / mostly known / mostly absent / zero heavy) applied on the attr.Value tree; distinct = distinct (case, type, null/unknown/known shape of the object) triples; "
	register(&Property{ID: "C05", Level: "exploration",
		Rule:  planRule + "one evaluation = one CopyFrom: each object is decoded in a clean variant (as the framework would deliver it) and a hand-built variant that keeps the payload under the Null/Unknown flags, into a fresh target and into a target pre-filled with a dense lattice value; oracles: no panic, no error diagnostic, every null/unknown position left zero/nil/empty (counter absent-positions-judged), oneof holder nil when all branches absent, result independent of the payload, root-level excluded fields unchanged",
		Check: stdL2("C05", 8, 150)})
	register(&Property{ID: "C07", Level: "exploration",
		Rule:  planRule + "CopyFrom: objects with at most one known branch per group (others null or typed unknown), decoded into a fresh target and two pre-filled targets holding other branches; the holder must be exactly the set branch with the model's value, or nil; CopyTo: lattice struct values into an empty object, null-ness of every branch attribute of every group at every level (nested objects, list and map elements); distinct = distinct (level path, group, active branch / none / zero payload, prior) combinations (counters from-groups-judged, to-groups-judged)",
		Check: stdL2("C07", 8, 150)})
	register(&Property{ID: "C08", Level: "exploration",
		Rule:  planRule + "one evaluation = history plan -> CopyFrom(fresh struct) -> CopyTo(into a deep copy of the same plan object) -> CopyFrom; oracles: no unknown below field-backed attributes, every known non-element attribute unchanged (value / null-ness / length / key set; counter known-attributes-judged), second decode equals the first in normal form",
		Check: stdL2("C08", 8, 150)})
	register(&Property{ID: "C09", Level: "exploration",
		Rule:  "cases = curated corpus + seeded random descriptors; per selected type N histories CopyTo(s0); CopyTo(s1); ... on one object starting from the empty schema-typed object (2 steps quick, 5 thorough), sources alternating dense / mixed / sparse / zero / boundary lattice modes so that every list grows, shrinks, empties and becomes nil and maps gain and lose keys; after every step the object is judged against the last source and the object before the step (counter refresh-attributes-judged) and the step is repeated to check idempotence; distinct = distinct (case, type, sequence of shape signatures)",
		Check: stdL2("C09", 8, 150)})
	register(&Property{ID: "C06", Level: "fault_enumeration",
		Rule:  "cases = curated corpus + seeded random descriptors; CopyFrom: per selected type B conforming base objects (fully known plan / masked plan); every fault position reachable through known parents is enumerated (attributes at every depth, list elements, map values; counter from-fault-positions) and every single fault at it is applied one at a time (delete, wrong Go type, nil interface, nil Attrs, nil Elems, wrong-typed / nil element; counter from-single-faults), then random sets of 2-6 non-nested faults (counter from-fault-sets); oracle: no panic, one error diagnostic per visited fault naming the model's field path, total count equal to the number of visited faults, every field outside the faulted attributes equal to the unfaulted decode. CopyTo: for a dense source value every attribute type of every object-type level the source reaches (top level, nested objects, list and map element types) is removed or replaced one at a time (counter to-type-faults); oracle: no panic, one missing-attribute diagnostic per visit naming the field, all other attributes identical to the unfaulted run; distinct = distinct (fault kind, field path) pairs",
		Check: stdL2("C06", 6, 120)})
	register(&Property{ID: "C20", Level: "exploration",
		Rule:  latticeRule + "one evaluation = one CopyTo into an empty object followed by the null-ness walk over every non-element attribute (counter judged-attributes)",
		Check: stdL2("C20", 8, 150)})
}

package main

import (
	"verif/internal/descgen"
	"verif/internal/pipeline"
)

// curatedCases returns pipeline cases for the named curated entries (all when empty).
func curatedCases(names ...string) []*pipeline.Case {
	var out []*pipeline.Case
	for _, e := range descgen.Curated() {
		if len(names) == 0 {
			out = append(out, caseFrom(e))
			continue
		}
		for _, n := range names {
			if e.Name == n {
				out = append(out, caseFrom(e))
			}
		}
	}
	return out
}

func init() {
	register(&Property{ID: "C03", Level: "exploration",
		Rule: "cases = curated corpus (every construct of D) + seeded random descriptors; per selected type N struct values drawn from the state lattice (modes zero/mixed/sparse/dense/boundary); one evaluation = one CopyTo into an empty schema-typed object followed by the conformance walk and the framework acceptance checks; distinct = distinct (case, type, shape signature) triples, the signature being the vector of lattice states (nil/empty/len, pointer nil-ness, active oneof branch, embed state) along the spec tree",
		Check: func(r *Run) {
			cases := curatedCases()
			r.generate(cases)
			r.compile(cases)
			r.drive("C03", cases, 0)
		}})
}

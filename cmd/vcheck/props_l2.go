package main

import (
	"verif/internal/descgen"
	"verif/internal/pipeline"
)

// curatedCases returns pipeline cases for the named curated entries (all when empty).
func curatedCases(names ...string) []*pipeline.Case {
	var out []*pipeline.Case
	for _, e := range descgen.Curated() {
		if len(names) == 0 {
			out = append(out, caseFrom(e))
			continue
		}
		for _, n := range names {
			if e.Name == n {
				out = append(out, caseFrom(e))
			}
		}
	}
	return out
}

const latticeRule = "cases = curated corpus (every construct of D) + seeded random descriptors; per selected type N struct values drawn from the state lattice (modes zero/mixed/sparse/dense/boundary); distinct = distinct (case, type, shape signature) triples, the signature being the vector of lattice states (nil/empty/len, pointer nil-ness, active oneof branch, embed state) along the spec tree; "

// stdL2 is the common flow of the value-driven L2 properties.
func stdL2(prop string, quickRandom, thoroughRandom int) func(r *Run) {
	return func(r *Run) {
		cases := curatedCases()
		for _, e := range descgen.Exotic() {
			cases = append(cases, caseFrom(e))
		}
		cases = append(cases, randomCases(r, r.pick(quickRandom, thoroughRandom))...)
		r.generate(cases)
		r.compile(cases)
		r.drive(prop, cases, 0)
	}
}

func init() {
	register(&Property{ID: "C02", Level: "exploration",
		Rule:  "cases = curated corpus (naming case k8 with json tags, overrides by path and by Message.Field, lower_snake names; scalar / message / embed / oneof matrices) + seeded random descriptors with random json tags and name overrides; structure: the run-time tfsdk.Schema is walked recursively and compared with the reference model (name set per level, type per the documented table, nesting mode; counter schema-attributes-judged); behaviour: every leaf field of every reachable message (through nested objects, first list element, map value, oneof branches, embeds; counter fields-probed) is probed with a distinctive non-zero value: CopyTo(probe) and CopyTo(base) must differ at exactly the attribute path the model assigns and carry the value in the documented Terraform type, and writing that attribute value into the base object must change exactly that field on CopyFrom; distinct = distinct probed field paths",
		Check: stdL2("C02", 16, 150)})
	register(&Property{ID: "C03", Level: "exploration",
		Rule:  latticeRule + "one evaluation = one CopyTo into an empty schema-typed object followed by the conformance walk (presence, value type, schema type, no unknown, recursively) and the framework acceptance checks (ToTerraformValue type, ValueFromTerraform, tfsdk.State.Set)",
		Check: stdL2("C03", 14, 150)})
	register(&Property{ID: "C04", Level: "exploration",
		Rule:  latticeRule + "one evaluation = CopyTo into an empty object, CopyFrom into a fresh struct, comparison of both structs in the documented normal form",
		Check: stdL2("C04", 14, 150)})
	const planRule = "cases = curated corpus + seeded random descriptors; per selected type N plan objects: a fully known value of the schema's Terraform type (values inside the range of the Go fields, known zero values included, at most one active branch per oneof group) decoded by the schema's own attribute type as req.Plan.Get does, then a pseudo-random null/unknown mask (modes mixed / mostly known / mostly absent / zero heavy) applied on the attr.Value tree; distinct = distinct (case, type, null/unknown/known shape of the object) triples; "
	register(&Property{ID: "C05", Level: "exploration",
		Rule:  planRule + "one evaluation = one CopyFrom: each object is decoded in a clean variant (as the framework would deliver it) and a hand-built variant that keeps the payload under the Null/Unknown flags, into a fresh target and into a target pre-filled with a dense lattice value; oracles: no panic, no error diagnostic, every null/unknown position left zero/nil/empty (counter absent-positions-judged), oneof holder nil when all branches absent, result independent of the payload, root-level excluded fields unchanged",
		Check: stdL2("C05", 14, 150)})
	register(&Property{ID: "C07", Level: "exploration",
		Rule:  planRule + "CopyFrom: objects with at most one known branch per group (others null or typed unknown), decoded into a fresh target and two pre-filled targets holding other branches; the holder must be exactly the set branch with the model's value, or nil; CopyTo: lattice struct values into an empty object, null-ness of every branch attribute of every group at every level (nested objects, list and map elements); distinct = distinct (level path, group, active branch / none / zero payload, prior) combinations (counters from-groups-judged, to-groups-judged)",
		Check: stdL2("C07", 14, 150)})
	register(&Property{ID: "C08", Level: "exploration",
		Rule:  planRule + "one evaluation = history plan -> CopyFrom(fresh struct) -> CopyTo(into a deep copy of the same plan object) -> CopyFrom; oracles: no unknown below field-backed attributes, every known non-element attribute unchanged (value / null-ness / length / key set; counter known-attributes-judged), second decode equals the first in normal form",
		Check: stdL2("C08", 14, 150)})
	register(&Property{ID: "C09", Level: "exploration",
		Rule:  "cases = curated corpus + seeded random descriptors; per selected type N histories CopyTo(s0); CopyTo(s1); ... on one object starting from the empty schema-typed object (2 steps quick, 5 thorough), sources alternating dense / mixed / sparse / zero / boundary lattice modes so that every list grows, shrinks, empties and becomes nil and maps gain and lose keys; after every step the object is judged against the last source and the object before the step (counter refresh-attributes-judged) and the step is repeated to check idempotence; distinct = distinct (case, type, sequence of shape signatures)",
		Check: stdL2("C09", 14, 150)})
	register(&Property{ID: "C06", Level: "fault_enumeration",
		Rule:  "cases = curated corpus + seeded random descriptors; CopyFrom: per selected type B conforming base objects (fully known plan / masked plan); every fault position reachable through known parents is enumerated (attributes at every depth, list elements, map values; counter from-fault-positions) and every single fault at it is applied one at a time (delete, wrong Go type, nil interface, nil Attrs, nil Elems, wrong-typed / nil element; counter from-single-faults), then random sets of 2-6 non-nested faults (counter from-fault-sets); oracle: no panic, one error diagnostic per visited fault naming the model's field path, total count equal to the number of visited faults, every field outside the faulted attributes equal to the unfaulted decode. CopyTo: for a dense source value every attribute type of every object-type level the source reaches (top level, nested objects, list and map element types) is removed or replaced one at a time (counter to-type-faults); oracle: no panic, one missing-attribute diagnostic per visit naming the field, all other attributes identical to the unfaulted run; distinct = distinct (fault kind, field path) pairs",
		Check: stdL2("C06", 10, 120)})
	register(&Property{ID: "C19", Level: "exploration",
		Rule: "cases = scalar / temporal / cast matrices of the curated corpus (k2, k3, k4, k1, oneof cases k7, k11e, k13) + seeded random descriptors; for every scalar-like root field shape (singular, repeated element, map value, oneof branch, cast type; counter shapes) the full boundary set of its Go type (counter boundary-values: signed / unsigned 32 and 64 bit extremes, 2^53 neighbours, float32 / float64 subnormal, largest, rounding neighbours, +-0, +-Inf for double, empty / NUL / non-UTF-8 / 10 kB strings, all 256 byte values, enum numbers inside and outside the declared range, time instants with nanoseconds in +-14 h zones from year 1 to 9999, extreme durations) plus N full-range random values is placed into the field (two distinct values for lists and maps) and must survive CopyTo into an empty object followed by CopyFrom exactly (floats: bit equality up to the sign of zero); distinct = distinct (field, value) pairs",
		Check: func(r *Run) {
			cases := curatedCases("k1", "k2", "k3", "k4", "k6a", "k6b", "k7", "k8", "k13")
			// scalar oneof branches next to by-value duration branches (the last non-null branch wins on the way back)
			cases = append(cases, caseFrom(descgen.CuratedByName("k11e")))
			cases = append(cases, randomCases(r, r.pick(6, 30))...)
			r.generate(cases)
			r.compile(cases)
			r.drive("C19", cases, 0)
		}})
	register(&Property{ID: "C10", Level: "exploration",
		Rule: "cases = curated descriptors (k1 fixture-like configuration; k5, k7, k8, k9, k3 each under V pseudo-random option sets) + seeded random descriptors with random option sets: arbitrary subsets of fields for required / computed / sensitive keyed by full path or Message.Field, validator and plan-modifier lists carrying ids, use_state_for_unknown_by_default on / off, injected fields at the root and at nested paths, comments of ten torture shapes (multi-line, indented, CRLF, blank lines, quotes, tabs, unicode, none); one evaluation = one GenSchemaT call walked attribute by attribute against the reference model (counter attributes-judged; injected-judged; placeholders-judged) plus CopyTo runs that must not emit injected attributes; distinct = distinct (field path, flag combination, list lengths, comment presence) tuples",
		Check: func(r *Run) {
			cases := curatedCases("k1", "k3", "k5", "k6a", "k7", "k8", "k9", "k10a", "k10b", "k12")
			for _, n := range []string{"k5", "k7", "k8", "k9", "k3", "k6a", "k10b"} {
				for k := 0; k < r.pick(2, 12); k++ {
					cases = append(cases, caseFrom(descgen.OptionVariant(descgen.CuratedByName(n), r.Seed, k)))
				}
			}
			cases = append(cases, randomCases(r, r.pick(10, 200))...)
			// the same metadata when the file is generated into another package (the file is post-processed then)
			cases = append(cases, separate(descgen.CuratedByName("k8"), false), separate(descgen.CuratedByName("k9"), true))
			for k := 0; k < r.pick(2, 10); k++ {
				cases = append(cases, separate(descgen.Random(r.Seed, 500+k, descgen.RandOpt{}), k%2 == 0))
			}
			r.generate(cases)
			r.compile(cases)
			r.drive("C10", cases, 0)
		}})
	register(&Property{ID: "C17", Level: "exploration",
		Rule: "cases = curated descriptors with custom-type fields (k1: repeated customtype with a suffixes entry and a custom_types entry; k4: nullable / by-value / repeated customtype, custom_types entry with a path-like type name and default suffix; k9, k13, k15: message-typed and schema_types-addressed custom fields; k1blank: an empty configured suffix and temporal fields listed in custom_types; option variants of k4) + seeded random descriptors that contain custom fields; the harness's hooks GenSchema<S> / CopyFrom<S> / CopyTo<S> are generic recording shims named after the suffix the model predicts (a different suffix does not compile); oracles: one GenSchema<S> call per custom field with the model's description and flags, schema entry = hook result; a second GenSchema<T> call delegates again; CopyTo: a call carrying the field value, the attribute type of the target and the current attribute value (absent on the first call, the earlier value on the second; every 16th call an unknown / a null value put there by the monitor, every 32nd call a target flagged unknown / null), stored value = returned value (also a nil one); CopyFrom: exactly one call with a pointer to the very field and the very attribute value, field not written by generated code, missing attribute still reported; distinct = distinct (direction, custom field, prior state) tuples",
		Check: func(r *Run) {
			cases := curatedCases("k1", "k4", "k9", "k13", "k15")
			{
				// a configured suffix is the suffix, also when it is the empty string (hooks GenSchema / CopyFrom / CopyTo)
				e := descgen.CuratedByName("k1")
				e.Cfg.Suffixes["CustomB"] = ""
				// temporal fields listed in custom_types are delegated like any other field
				for _, n := range []string{"DurationStandardMissing", "DurationCustomMissing", "TimestampMissing", "TimestampNullableWithNilValue"} {
					e.Cfg.CustomTypes["Test."+n] = "verif/types.Boxed"
				}
				e.Cfg.Suffixes["verif/types.Boxed"] = "SpanHook"
				cases = append(cases, caseFrom(descgen.Rename(e, "k1blank")))
			}
			for k := 0; k < r.pick(2, 10); k++ {
				cases = append(cases, caseFrom(descgen.OptionVariant(descgen.CuratedByName("k4"), r.Seed, k)))
			}
			for i := 0; len(cases) < r.pick(8, 60) && i < 2000; i++ {
				e := descgen.Random(r.Seed, i, descgen.RandOpt{})
				if hasCustom(e) {
					cases = append(cases, caseFrom(e))
				}
			}
			r.generate(cases)
			r.compile(cases)
			r.drive("C17", cases, 0)
		}})
	register(&Property{ID: "C20", Level: "exploration",
		Rule:  latticeRule + "one evaluation = one CopyTo into an empty object followed by the null-ness walk over every non-element attribute (counter judged-attributes)",
		Check: stdL2("C20", 14, 150)})
}

// hasCustom reports whether an entry has a custom-type field below its roots.
func hasCustom(e *descgen.Entry) bool {
	if len(e.Cfg.CustomTypes) > 0 {
		return true
	}
	for _, m := range e.File.Messages {
		for _, f := range m.Fields {
			if f.CustomType != "" {
				return true
			}
		}
	}
	return false
}

package main

import (
	"verif/internal/descgen"
	"verif/internal/pipeline"
)

// curatedCases returns pipeline cases for the named curated entries (all when empty).
func curatedCases(names ...string) []*pipeline.Case {
	var out []*pipeline.Case
	for _, e := range descgen.Curated() {
		if len(names) == 0 {
			out = append(out, caseFrom(e))
			continue
		}
		for _, n := range names {
			if e.Name == n {
				out = append(out, caseFrom(e))
			}
		}
	}
	return out
}


const latticeRule = "cases = curated corpus (every construct of D) + seeded random descriptors; per selected type N struct values drawn from the state lattice (modes zero/mixed/sparse/dense/boundary); distinct = distinct (case, type, shape signature) triples, the signature being the vector of lattice states (nil/empty/len, pointer nil-ness, active oneof branch, embed state) along the spec tree; "

// stdL2 is the common flow of the value-driven L2 properties.
func stdL2(prop string, quickRandom, thoroughRandom int) func(r *Run) {
	return func(r *Run) {
		cases := curatedCases()
		for _, e := range descgen.Exotic() {
			cases = append(cases, caseFrom(e))
		}
		cases = append(cases, randomCases(r, r.pick(quickRandom, thoroughRandom))...)
		r.generate(cases)
		r.compile(cases)
		r.drive(prop, cases, 0)
	}
}

func init() {
	register(&Property{ID: "C03", Level: "exploration",
		Rule:  latticeRule + "one evaluation = one CopyTo into an empty schema-typed object followed by the conformance walk (presence, value type, schema type, no unknown, recursively) and the framework acceptance checks (ToTerraformValue type, ValueFromTerraform, tfsdk.State.Set)",
		Check: stdL2("C03", 8, 150)})
	register(&Property{ID: "C04", Level: "exploration",
		Rule:  latticeRule + "one evaluation = CopyTo into an empty object, CopyFrom into a fresh struct, comparison of both structs in the documented normal form",
		Check: stdL2("C04", 8, 150)})
	register(&Property{ID: "C20", Level: "exploration",
		Rule:  latticeRule + "one evaluation = one CopyTo into an empty object followed by the null-ness walk over every non-element attribute (counter judged-attributes)",
		Check: stdL2("C20", 8, 150)})
}

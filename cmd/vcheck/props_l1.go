package main

import (
	"fmt"
	"math/rand"

	"verif/internal/checkers"
	"verif/internal/descgen"
	"verif/internal/pipeline"
)

// separate returns the separate-package variant of an entry.
func separate(e *descgen.Entry, override bool) *pipeline.Case {
	n := e.Name + "s"
	if override {
		n += "o"
	}
	c := caseFrom(descgen.Rename(e, n))
	c.Separate = true
	c.UseOverride = override
	c.Tags = append(c.Tags, "separate-package")
	return c
}

// c01Corpus: whole curated corpus in same- and separate-package layouts, the
// isolated exotic shapes, and random descriptors x configurations x delivery.
func c01Corpus(r *Run) []*pipeline.Case {
	var cases []*pipeline.Case
	for _, e := range descgen.Curated() {
		cases = append(cases, caseFrom(e))
	}
	// configurations that name only the temporal types the descriptor needs (one of the two, or none)
	{
		e := descgen.CuratedByName("k11e") // durations only
		e.Cfg.TimeType = nil
		cases = append(cases, caseFrom(descgen.Rename(e, "k11edur")))
		e = descgen.CuratedByName("k11a") // no temporal field at all
		e.Cfg.TimeType, e.Cfg.DurationType = nil, nil
		cases = append(cases, caseFrom(descgen.Rename(e, "k11anone")))
		e = descgen.CuratedByName("k14") // timestamps only
		e.Cfg.DurationType = nil
		cases = append(cases, caseFrom(descgen.Rename(e, "k14time")))
	}
	{
		// a custom_types key in the two-segment form of a selected type that also occurs nested in other
		// selected types (C01 only: whether such a key reaches the nested occurrences is decided by no property;
		// whatever the generator makes of them has to compile against hooks named after the configured suffix)
		e := descgen.CuratedByName("k15")
		e.Cfg.CustomTypes["LabelEntry.value"] = "verif/types.Boxed"
		cases = append(cases, caseFrom(descgen.Rename(e, "k15mf")))
	}
	for i, e := range descgen.Curated() {
		if r.thorough() || i%2 == 0 {
			c := separate(e, i%4 == 0)
			c.DottedPath = i%4 == 2
			c.SameName = i%8 == 6
			c.ForeignGoPackage = i%8 == 0
			c.MixedCasePkg = i%8 == 2
			c.PrefixTarget = i%8 == 4 && !c.SameName
			c.HyphenPath = i%8 == 6 && !c.DottedPath
			c.FullPathOverride = i%8 == 4 && !c.UseOverride
			c.DecoyPrefixOverrides = i%4 == 2
			c.MixedCaseTarget = i%8 == 2
			cases = append(cases, c)
		}
	}
	for _, e := range descgen.Exotic() {
		cases = append(cases, caseFrom(e))
	}
	n := r.pick(24, 300)
	rnd := rand.New(rand.NewSource(r.Seed))
	for i := 0; i < n; i++ {
		e := descgen.Random(r.Seed, i, descgen.RandOpt{})
		var c *pipeline.Case
		switch rnd.Intn(3) {
		case 0:
			c = separate(e, rnd.Intn(2) == 0)
		default:
			c = caseFrom(e)
		}
		if rnd.Intn(3) == 0 {
			c.Delivery.CLI = map[string]bool{}
			for _, k := range descgen.CLIOptions {
				if rnd.Intn(2) == 0 {
					c.Delivery.CLI[k] = true
				}
			}
		}
		cases = append(cases, c)
	}
	return cases
}

func checkC01(r *Run) {
	cases := c01Corpus(r)
	r.generate(cases)
	r.compile(cases)
	lic := checkers.License()
	if lic == "" {
		r.Inconclusive = append(r.Inconclusive, "license.txt not readable")
		return
	}
	judge := func(c *pipeline.Case, variant string) {
		if len(c.GenErr) > 7 && c.GenErr[:7] == "HARNESS" {
			r.Inconclusive = append(r.Inconclusive, c.Name+": "+c.GenErr)
			return
		}
		r.Evaluations++
		r.Cases = append(r.Cases, c.Name+variant)
		r.distinctAdd(c.Name)
		for _, t := range c.Tags {
			r.Counters["tag:"+t]++
		}
		r.Counters["selected-types"] += len(c.Spec.Roots)
		for _, f := range checkers.C01(c, lic) {
			r.violate(f.FP, c.Name, "", variant, f.Msg, map[string]interface{}{"tags": c.Tags, "param": c.Param, "yaml": c.YAML, "stderr": tail(string(c.Plugin.Stderr), 8)})
		}
	}
	for _, c := range cases {
		judge(c, "")
	}
	if len(cases) > 0 {
		c := cases[0]
		r.sample(map[string]interface{}{"case": c.Name, "tags": c.Tags, "param": c.Param, "yaml": c.YAML, "file": c.TFName, "functions": c.Funcs,
			"stdout_bytes": len(c.Plugin.Stdout), "plugin_ms": c.Plugin.Dur.Milliseconds()})
	}
	if r.thorough() {
		// the same requests through the race-instrumented plugin (no workspace writes)
		if _, err := r.WS.BuildPlugin("race"); err != nil {
			r.Inconclusive = append(r.Inconclusive, err.Error())
			return
		}
		var rc []*pipeline.Case
		for _, c := range cases {
			d := *c
			d.PluginVariant, d.NoWrite = "race", true
			d.PluginEnv = []string{"GORACE=halt_on_error=0 exitcode=0 log_path=" + r.WS.Dir + "/out/race-" + c.Name}
			d.GenErr, d.BuildErr = "", ""
			rc = append(rc, &d)
		}
		pipeline.Parallel(len(rc), func(i int) { r.WS.Generate(rc[i]) })
		for i, c := range rc {
			c.BuildErr = ""
			r.Evaluations++
			// the race build must produce the same bytes as the plain build
			if string(c.Plugin.Stdout) != string(cases[i].Plugin.Stdout) && cases[i].Plugin.Exit == 0 {
				r.violate("race-build-differs", c.Name, "", "race", "output of the -race build differs from the plain build", nil)
			}
		}
		r.pluginCoverage(cases)
		r.Counters["race-reports"] = countRaceReports(r.WS.Dir + "/out")
		r.Notes = append(r.Notes, fmt.Sprintf("race detector: %d report files over %d plugin runs", r.Counters["race-reports"], len(rc)))
	}
}

func init() {
	register(&Property{ID: "C01", Level: "exploration",
		Rule:  "one evaluation = one plugin process run on a generated CodeGeneratorRequest (curated corpus in same- and separate-package layout, isolated exotic shapes, seeded random descriptors x configurations x delivery channel) judged on exit status, wire-level stdout scan, file name, license, package clause, function set, and `go build` of the generated file together with protoc-gen-gogo's output and a register file that assigns the three functions to exactly typed function variables; distinct = distinct (descriptor, configuration, layout) cases",
		Check: checkC01})
}

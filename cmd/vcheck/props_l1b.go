package main

import (
	"crypto/sha256"
	"fmt"
	"go/ast"
	"go/parser"
	"go/token"
	"io/ioutil"
	"math/rand"
	"os"
	"path/filepath"
	"regexp"
	"sort"
	"strings"

	"verif/internal/descgen"
	"verif/internal/ir"
	"verif/internal/pipeline"
)

// funcTexts returns the source text (doc comment to closing brace) of every
// top-level function of a Go file.
func funcTexts(src string) map[string]string {
	out := map[string]string{}
	fs := token.NewFileSet()
	f, err := parser.ParseFile(fs, "tf.go", src, parser.ParseComments)
	if err != nil {
		return out
	}
	for _, d := range f.Decls {
		fd, ok := d.(*ast.FuncDecl)
		if !ok || fd.Recv != nil {
			continue
		}
		start := fd.Pos()
		if fd.Doc != nil {
			start = fd.Doc.Pos()
		}
		out[fd.Name.Name] = src[fs.Position(start).Offset:fs.Position(fd.End()).Offset]
	}
	return out
}

func typeOfFunc(name string) string {
	switch {
	case strings.HasPrefix(name, "GenSchema"):
		return strings.TrimPrefix(name, "GenSchema")
	case strings.HasPrefix(name, "Copy") && strings.HasSuffix(name, "FromTerraform"):
		return strings.TrimSuffix(strings.TrimPrefix(name, "Copy"), "FromTerraform")
	case strings.HasPrefix(name, "Copy") && strings.HasSuffix(name, "ToTerraform"):
		return strings.TrimSuffix(strings.TrimPrefix(name, "Copy"), "ToTerraform")
	}
	return ""
}

// generatedFuncs returns the generated functions grouped by type.
func generatedFuncs(c *pipeline.Case) map[string]map[string]string {
	out := map[string]map[string]string{}
	for name, text := range funcTexts(c.TFContent) {
		if t := typeOfFunc(name); t != "" {
			if out[t] == nil {
				out[t] = map[string]string{}
			}
			out[t][name] = text
		}
	}
	return out
}

// ---------------------------------------------------------------------------
// C12 only selected types, independently

func checkC12(r *Run) {
	type mk = func() *descgen.Entry
	files := []mk{descgen.K7, descgen.K9, func() *descgen.Entry { return descgen.K10(false) }, func() *descgen.Entry { return noClash(descgen.K10(true)) }, descgen.K5, descgen.K15, descgen.K1}
	// import_path_overrides in which the value of one entry is the key of another: the dependency package is
	// named by its Go package name (first entry), a cast type by the full path the first entry yields (second
	// entry); what Beta's cast resolves to must not depend on whether Alpha was written before (L1 only:
	// nothing lives at these paths)
	files = append(files, func() *descgen.Entry {
		e := descgen.Rename(noClash(descgen.K10(true)), "k10chain")
		_, dname := descgen.GoPackageOf(e.File.Dep)
		mid := "example.com/api/" + dname
		e.Cfg.ImportPathOverrides = map[string]string{dname: mid, mid: "example.com/fork/api/" + dname}
		beta := e.File.Msg("Beta", false)
		beta.Fields = append(beta.Fields, descgen.F("Kind", descgen.Cast(mid+".Kind")))
		beta.Fields[len(beta.Fields)-1].Number = int32(len(beta.Fields))
		// the struct package path has capitals, among them the initial of a selected type
		e.Cfg.DefaultPackageName, e.Cfg.TargetPackageName = "example.com/B2B/"+e.Name, "tfschema"
		e.Tags = append(e.Tags, "l1-only", "override-chain")
		return e
	})
	nr := r.pick(3, 54)
	for i := 0; i < nr; i++ {
		i := i
		files = append(files, func() *descgen.Entry { return descgen.Random(r.Seed, i, descgen.RandOpt{}) })
	}
	nsel := r.pick(5, 8)
	rnd := rand.New(rand.NewSource(r.Seed*53 + 11))
	type run struct {
		c        *pipeline.Case
		selected []string
		ext      string
	}
	var all []*pipeline.Case
	groups := map[string][]run{}
	var order []string
	for fi, m := range files {
		probe := m()
		var names []string
		for _, msg := range probe.File.Messages {
			names = append(names, msg.Name)
		}
		base := probe.Name
		order = append(order, base)
		for k := 0; k < nsel; k++ {
			e := m()
			var sel []string
			switch k {
			case 0:
				sel = append(sel, e.Cfg.Types...)
			case 1:
				sel = []string{names[rnd.Intn(len(names))]}
				if contains(probe.Tags, "override-chain") {
					sel = []string{"Beta"}
				}
			case 2:
				sel = append(sel, names...)
			default:
				for _, n := range names {
					if rnd.Intn(2) == 0 {
						sel = append(sel, n)
					}
				}
				if len(sel) == 0 {
					sel = []string{names[0]}
				}
			}
			// a non-message name and a near-miss (prefix) never select anything
			cfgSel := append([]string(nil), sel...)
			if k%2 == 1 {
				cfgSel = append(cfgSel, "NoSuchMessage", names[0]+"Suffix")
			}
			e.Cfg.Types = cfgSel
			ext := "none"
			switch (k + fi) % 4 {
			case 1:
				// unrelated messages at the start and at the end of the file
				extra1 := descgen.M("AaaUnrelated", descgen.F("Whatever"), descgen.F("Number", descgen.Sc(ir.Int64)))
				extra2 := descgen.M("ZzzUnrelated", descgen.F("Other", descgen.Rep()))
				e.File.Messages = append(append([]*ir.Message{extra1}, e.File.Messages...), extra2)
				if k%2 == 1 {
					// ... and many of them (whatever the generator counts per message must not run over)
					var fill []*ir.Message
					for n := 0; n < 90; n++ {
						fill = append(fill, descgen.M(fmt.Sprintf("AaaFiller%02d", n), descgen.F("Whatever")))
					}
					e.File.Messages = append(fill, e.File.Messages...)
				}
				ext = "extra-messages"
			case 2:
				if e.File.Dep == nil {
					e.File.Dep = &ir.File{Name: base + "extra.proto", Package: base + "extra", GoPackage: "example.com/extra/" + base + "extra",
						Messages: []*ir.Message{descgen.M("ExtraDepMessage", descgen.F("Foo")), descgen.M(names[0]+"Dep", descgen.F("Bar"))}}
					e.File.DepUnused = true
					ext = "extra-dependency-file"
				}
			}
			c := caseFrom(e)
			c.Name = fmt.Sprintf("%s_sel%d", base, k)
			c.NoWrite = true
			c.Tags = append(c.Tags, "ext:"+ext)
			all = append(all, c)
			groups[base] = append(groups[base], run{c: c, selected: sel, ext: ext})
		}
	}
	// self-containment: builds with a single selected type compile
	var compiled []*pipeline.Case
	for fi, m := range files {
		if fi >= r.pick(4, 30) {
			break
		}
		probe := m()
		if contains(probe.Tags, "l1-only") {
			continue
		}
		for _, msg := range probe.File.Messages {
			if len(compiled) >= r.pick(8, 120) {
				break
			}
			e := m()
			e.Cfg.Types = []string{msg.Name}
			c := caseFrom(descgen.Rename(e, fmt.Sprintf("%sone%s", e.Name, strings.ToLower(msg.Name))))
			compiled = append(compiled, c)
		}
	}
	r.generate(append(append([]*pipeline.Case(nil), all...), compiled...))
	r.compile(compiled)
	for _, c := range compiled {
		r.Evaluations++
		if c.GenErr != "" || c.BuildErr != "" {
			r.violate("single-type/not-self-contained", c.Name, c.Cfg.Types[0], "", "a build with a single selected type does not generate or compile: "+firstLine(c.GenErr+c.BuildErr), nil)
		}
		r.Counters["single-type-builds"]++
	}
	for _, base := range order {
		texts := map[string]string{} // function name -> text of the first run that selected it
		from := map[string]string{}
		for _, ru := range groups[base] {
			c := ru.c
			r.Evaluations++
			r.distinctAdd(c.Name)
			r.Counters["ext:"+ru.ext]++
			if c.GenErr != "" {
				r.violate("generation-failed", c.Name, "", "", c.GenErr, nil)
				continue
			}
			got := generatedFuncs(c)
			want := map[string]bool{}
			for _, s := range ru.selected {
				if c.File.Msg(s, false) != nil {
					want[s] = true
				}
			}
			for t, fns := range got {
				if !want[t] {
					r.violate("unselected-type-emitted", c.Name, t, strings.Join(c.Cfg.Types, "+"), fmt.Sprintf("functions for %s emitted although types=%v (extension %s)", t, c.Cfg.Types, ru.ext), nil)
					continue
				}
				if len(fns) != 3 {
					r.violate("function-set/incomplete", c.Name, t, "", fmt.Sprintf("%d of 3 functions for %s", len(fns), t), nil)
				}
				for fn, text := range fns {
					if prev, ok := texts[fn]; ok {
						r.Counters["function-texts-compared"]++
						if prev != text {
							r.violate("function-text-differs/"+kindOfFunc(fn), c.Name, t, "", fmt.Sprintf("%s differs between %s and %s: %s", fn, from[fn], c.Name, firstDiff(prev, text)),
								map[string]interface{}{"types_a": from[fn], "types_b": c.Cfg.Types, "ext": ru.ext})
						}
					} else {
						texts[fn], from[fn] = text, c.Name
					}
				}
			}
			for t := range want {
				if _, ok := got[t]; !ok {
					r.violate("selected-type-missing", c.Name, t, "", fmt.Sprintf("no functions for selected type %s (types=%v, extension %s)", t, c.Cfg.Types, ru.ext), map[string]interface{}{"stderr": tail(string(c.Plugin.Stderr), 10)})
				}
			}
		}
	}
	if len(all) > 1 {
		r.sample(map[string]interface{}{"file": all[1].File.Name, "types": all[1].Cfg.Types, "extension": all[1].Tags[len(all[1].Tags)-1], "functions": all[1].Funcs})
	}
}

func kindOfFunc(fn string) string {
	switch {
	case strings.HasPrefix(fn, "GenSchema"):
		return "GenSchema"
	case strings.HasSuffix(fn, "FromTerraform"):
		return "CopyFrom"
	}
	return "CopyTo"
}

// ---------------------------------------------------------------------------
// C14 determinism

func sha(b []byte) string { return fmt.Sprintf("%x", sha256.Sum256(b)) }

func checkC14(r *Run) {
	type mk = func() *descgen.Entry
	reqs := []mk{descgen.K1, descgen.K9, descgen.K7, descgen.K4, func() *descgen.Entry { return descgen.K11(3) }, descgen.K13}
	for _, n := range []string{"k5", "k9", "k8"} {
		n := n
		reqs = append(reqs, func() *descgen.Entry { return descgen.OptionVariant(descgen.CuratedByName(n), r.Seed, 1) })
	}
	// several exported types with sorting disabled (output order must follow the descriptor, not a map)
	for _, n := range []string{"k7", "k9", "k10a", "k5"} {
		n := n
		reqs = append(reqs, func() *descgen.Entry {
			e := descgen.CuratedByName(n)
			e.Cfg.Sort, e.Cfg.SortSet = false, true
			for _, m := range e.File.Messages {
				if len(e.Cfg.Types) < 5 && !contains(e.Cfg.Types, m.Name) {
					e.Cfg.Types = append(e.Cfg.Types, m.Name)
				}
			}
			return descgen.Rename(e, n+"unsorted")
		})
	}
	// the same field addressed under both key forms with different values in every option map
	for _, n := range []string{"k9", "k5"} {
		n := n
		reqs = append(reqs, func() *descgen.Entry {
			e := descgen.CuratedByName(n)
			c := e.Cfg
			c.NameOverrides, c.Validators, c.PlanModifiers = map[string]string{}, map[string][]string{}, map[string][]string{}
			for i, o := range descgen.Occurrences(e.File, c.Types) {
				if i%3 != 0 || o.Path == o.Key {
					continue
				}
				c.NameOverrides[o.Path], c.NameOverrides[o.Key] = fmt.Sprintf("by_path_%d", i), fmt.Sprintf("by_key_%d", i)
				c.Validators[o.Path], c.Validators[o.Key] = []string{descgen.V(fmt.Sprintf("path%d", i))}, []string{descgen.V(fmt.Sprintf("key%d", i))}
				c.PlanModifiers[o.Path], c.PlanModifiers[o.Key] = []string{descgen.PM(fmt.Sprintf("path%da", i)), descgen.PM(fmt.Sprintf("path%db", i)), descgen.USFU}, []string{descgen.PM(fmt.Sprintf("key%d", i))}
				c.UseStateForUnknown = true
				c.RequiredFields = append(c.RequiredFields, o.Path)
				c.ComputedFields = append(c.ComputedFields, o.Key)
			}
			return descgen.Rename(e, n+"bothkeys")
		})
	}
	// several nullable embedded messages with list / map / message children in one message (L1 only: the shape is finding D3b at run time)
	reqs = append(reqs, func() *descgen.Entry {
		e := descgen.K6(2)
		more := descgen.M("More", descgen.F("MoreTags", descgen.Rep()), descgen.F("MoreDict", descgen.MapOf()), descgen.F("MoreLeaf", descgen.MsgT("Leaf")))
		other := descgen.M("Other", descgen.F("OtherList", descgen.Sc(ir.Int64), descgen.Rep()), descgen.F("OtherLeaves", descgen.MsgT("Leaf"), descgen.Rep()), descgen.F("OtherName"))
		third := descgen.M("Third", descgen.F("ThirdDict", descgen.Sc(ir.Bool), descgen.MapOf()), descgen.F("ThirdLeaf", descgen.MsgT("Leaf"), descgen.NonNull()))
		e.File.Messages[0].Fields = append(e.File.Messages[0].Fields, descgen.F("More", descgen.MsgT("More"), descgen.Embed()), descgen.F("Other", descgen.MsgT("Other"), descgen.Embed()), descgen.F("Third", descgen.MsgT("Third"), descgen.Embed()))
		for i, fl := range e.File.Messages[0].Fields {
			fl.Number = int32(i + 1)
		}
		e.File.Messages = append(e.File.Messages, more, other, third)
		e.Cfg.Sort, e.Cfg.SortSet = false, true
		return descgen.Rename(e, "k6cmany")
	})
	// several selected types that cannot be generated (each is skipped with a diagnostic; the rest must not vary)
	reqs = append(reqs, func() *descgen.Entry {
		e := descgen.K18()
		for _, m := range e.File.Messages {
			switch m.Name {
			case "Aroot":
				m.Fields = append(m.Fields, descgen.F("ZzWhen", descgen.TS()))
			case "Croot":
				m.Fields = append(m.Fields, descgen.F("ZzSpan", descgen.Dur()))
			case "Wrapper":
				m.Fields = append(m.Fields, descgen.F("ZzByNumber", descgen.MapOf(), descgen.KeyT(ir.Int32)))
			}
			for i, fl := range m.Fields {
				fl.Number = int32(i + 1)
			}
		}
		e.Cfg.TimeType, e.Cfg.DurationType = nil, nil
		return descgen.Rename(e, "k18manyfail")
	})
	// options given through BOTH channels with different values: which one wins must not vary from run to run
	for _, n := range []string{"k9", "k1"} {
		n := n
		reqs = append(reqs, func() *descgen.Entry {
			e := descgen.CuratedByName(n)
			occ := descgen.Occurrences(e.File, e.Cfg.Types)
			pick := func(i int) string { return occ[(i*5+1)%len(occ)].Path }
			c := e.Cfg
			c.ExcludeFields = append(c.ExcludeFields, pick(1))
			c.ComputedFields = append(c.ComputedFields, pick(2))
			c.RequiredFields = append(c.RequiredFields, pick(3))
			c.SensitiveFields = append(c.SensitiveFields, pick(4))
			c.Sort, c.SortSet = true, true
			// override entries that match no emitted package exactly but are prefixes of one another and of emitted paths
			if c.ImportPathOverrides == nil {
				c.ImportPathOverrides = map[string]string{}
			}
			for k, v := range map[string]string{"github.com/hashicorp": "example.com/mirror/hashicorp", "github.com/hashicorp/terraform-plugin-framework": "example.com/mirror/framework",
				"github.com": "example.com/mirror/github", "verif": "example.com/mirror/verif", "verif/rt": "example.com/mirror/rt"} {
				c.ImportPathOverrides[k] = v
			}
			e.ExtraParams = []string{"exclude_fields=" + pick(5) + "+" + pick(6), "computed_fields=" + pick(7), "required_fields=" + pick(8), "sensitive=" + pick(9), "sort=false"}
			e.Tags = append(e.Tags, "both-channels")
			return descgen.Rename(e, n+"bothchannels")
		})
	}
	// empty entries in the set-like lists (a doubled, leading or trailing `+`, an empty YAML item)
	for _, n := range []string{"k9", "k5"} {
		n := n
		reqs = append(reqs, func() *descgen.Entry {
			e := descgen.CuratedByName(n)
			occ := descgen.Occurrences(e.File, e.Cfg.Types)
			pick := func(i int) string { return occ[(i*7+2)%len(occ)].Path }
			c := e.Cfg
			c.ExcludeFields = append(c.ExcludeFields, pick(1), "", pick(2))
			c.ComputedFields = append(c.ComputedFields, pick(3), "", pick(4))
			c.RequiredFields = append(c.RequiredFields, pick(5), "", pick(6))
			c.SensitiveFields = append(c.SensitiveFields, pick(7), "", pick(8))
			e.Tags = append(e.Tags, "empty-list-entries")
			return descgen.Rename(e, n+"emptyentries")
		})
	}
	// top-level YAML keys under the spelling the command line uses for the option (`custom_duration`, `sensitive`):
	// no YAML option is called like that, so they are ignored wherever they stand in the file
	reqs = append(reqs, func() *descgen.Entry {
		e := descgen.CuratedByName("k1")
		occ := descgen.Occurrences(e.File, e.Cfg.Types)
		e.RawYAML = []string{"custom_duration: \"BillingDuration\"\n", "sensitive:\n  - \"" + occ[3%len(occ)].Path + "\"\n  - \"" + occ[7%len(occ)].Path + "\"\n", "exclude:\n  - \"" + occ[5%len(occ)].Path + "\"\n"}
		e.Tags = append(e.Tags, "cli-spellings-as-yaml-keys")
		return descgen.Rename(e, "k1clispellings")
	})
	// entries that name no field but look like patterns over real ones (shell metacharacters, an unclosed bracket)
	for _, n := range []string{"k5", "k9"} {
		n := n
		reqs = append(reqs, func() *descgen.Entry {
			e := descgen.CuratedByName(n)
			occ := descgen.Occurrences(e.File, e.Cfg.Types)
			pat := func(i int) []string {
				p := occ[(i*11+3)%len(occ)].Path
				d := strings.LastIndex(p, ".")
				leaf := p[d+1:]
				return []string{p[:d+1] + "[", p[:d+1] + leaf[:1] + "*" + leaf[len(leaf)-1:], p[:d+1] + "?" + leaf[1:], p[:d+1] + "*", "*." + leaf, p + "[0]"}
			}
			c := e.Cfg
			c.ExcludeFields = append(c.ExcludeFields, pat(1)...)
			c.ComputedFields = append(c.ComputedFields, pat(2)...)
			c.RequiredFields = append(c.RequiredFields, pat(3)...)
			c.SensitiveFields = append(c.SensitiveFields, pat(4)...)
			e.Tags = append(e.Tags, "pattern-like-dead-entries")
			return descgen.Rename(e, n+"patternentries")
		})
	}
	// protoc invoked with two files at once (the dependency is generated too, with a selected type of its own): the
	// response carries one file per generated input; their order and contents must not vary from run to run
	// (both files in one Go package: protoc-gen-gogo refuses one run over files of different import paths)
	// (`small`: one small selected type per file, so that both files take about as long to post-process and whatever is
	// done per file concurrently completes in either order)
	reqs = append(reqs, func() *descgen.Entry {
		e := descgen.K10(false)
		e.Cfg.Types = []string{"Gamma", "Unrelated"}
		e.Tags = append(e.Tags, "generate-dep-too")
		return descgen.Rename(e, "k10atwofilessmall")
	})
	for _, unsorted := range []bool{false, true} {
		unsorted := unsorted
		reqs = append(reqs, func() *descgen.Entry {
			e := descgen.K10(false)
			e.Cfg.Types = append(e.Cfg.Types, "Shared", "Gamma")
			e.Tags = append(e.Tags, "generate-dep-too")
			if unsorted {
				e.Cfg.Sort, e.Cfg.SortSet = false, true
				return descgen.Rename(e, "k10atwofilesunsorted")
			}
			return descgen.Rename(e, "k10atwofiles")
		})
	}
	nr := r.pick(4, 90)
	for i := 0; i < nr; i++ {
		i := i
		reqs = append(reqs, func() *descgen.Entry { return descgen.Random(r.Seed, i, descgen.RandOpt{}) })
	}
	runs := r.pick(10, 24)
	shuffles := r.pick(3, 6)
	var all []*pipeline.Case
	type grp struct {
		name  string
		cases []*pipeline.Case
	}
	var groups []grp
	for ri, m := range reqs {
		g := grp{}
		for k := 0; k < runs+shuffles; k++ {
			e := m()
			g.name = e.Name
			c := caseFrom(e)
			c.NoWrite = true
			c.Name = fmt.Sprintf("%s_run%d", e.Name, k)
			// schedules: the repeated runs get different numbers of processors (whatever the generator does
			// concurrently completes in another order; a sequential generator does not notice)
			if mp := []int{0, 1, 2, 16, 1, 4}[k%6]; mp > 0 {
				c.PluginEnv = []string{fmt.Sprintf("GOMAXPROCS=%d", mp)}
			}
			if k >= runs {
				// permuted YAML keys / set-like lists / `+` lists, some options moved to the command line
				c.Delivery.Shuffle = rand.New(rand.NewSource(r.Seed*1009 + int64(ri)*31 + int64(k)))
				if k%2 == 0 && len(e.ExtraParams) == 0 {
					c.Delivery.CLI = map[string]bool{"exclude_fields": true, "computed_fields": true, "required_fields": true, "sensitive_fields": true, "types": true}
				}
				c.Tags = append(c.Tags, "shuffled-config")
			}
			g.cases = append(g.cases, c)
			all = append(all, c)
		}
		groups = append(groups, g)
	}
	// every run of a group uses the same config file name, so that requests are byte-identical
	for _, g := range groups {
		for _, c := range g.cases[:runs] {
			c.Name = g.name + "_run"
		}
	}
	for _, c := range all {
		r.WS.Prepare(c)
	}
	pipeline.Parallel(len(all), func(i int) { r.WS.Generate(all[i]) })
	judge := func(g grp, label string, cases []*pipeline.Case) {
		hashes := map[string][]string{}
		failed := 0
		for _, c := range cases {
			if c.Plugin.Exit != 0 || c.Plugin.Err != "" {
				failed++
			}
		}
		if failed == len(cases) && strings.HasSuffix(g.name, "emptyentries") {
			// an empty list entry may be rejected, as long as every order is
			r.Evaluations += len(cases)
			r.Counters["empty-entry-configs-rejected-consistently"]++
			return
		}
		for _, c := range cases {
			r.Evaluations++
			if c.Plugin.Exit != 0 || c.Plugin.Err != "" {
				r.violate("run-failed", c.Name, "", label, "plugin run failed: "+c.GenErr, nil)
				continue
			}
			h := sha(c.Plugin.Stdout)
			hashes[h] = append(hashes[h], c.Name)
			if c.Resp != nil && len(c.Resp.File) >= 2 {
				r.Counters["responses-with-several-files"]++
			}
		}
		if len(hashes) > 1 {
			var names [][]string
			for _, n := range hashes {
				names = append(names, n)
			}
			dir := filepath.Join(pipeline.VerifDir, "evidence", "replays", "C14", g.name)
			os.MkdirAll(dir, 0o755)
			var a, b *pipeline.Case
			for _, c := range cases {
				if a == nil {
					a = c
				} else if sha(c.Plugin.Stdout) != sha(a.Plugin.Stdout) && b == nil {
					b = c
				}
			}
			if a != nil && b != nil {
				ioutil.WriteFile(filepath.Join(dir, "request.bin"), a.Request, 0o644)
				ioutil.WriteFile(filepath.Join(dir, "a.go.txt"), []byte(a.TFContent), 0o644)
				ioutil.WriteFile(filepath.Join(dir, "b.go.txt"), []byte(b.TFContent), 0o644)
				ioutil.WriteFile(filepath.Join(dir, "a.yaml"), []byte(a.YAML), 0o644)
				ioutil.WriteFile(filepath.Join(dir, "b.yaml"), []byte(b.YAML), 0o644)
				r.violate("nondeterministic/"+label, g.name, "", label, fmt.Sprintf("%d distinct responses over %d runs: %s", len(hashes), len(cases), firstDiff(a.TFContent, b.TFContent)),
					map[string]interface{}{"groups": names, "param_a": a.Param, "param_b": b.Param})
			}
		}
	}
	for _, g := range groups {
		r.distinctAdd(g.name)
		judge(g, "repeated-runs", g.cases[:runs])
		judge(g, "config-order", append([]*pipeline.Case{g.cases[0]}, g.cases[runs:]...))
	}
	// the response is a function of THIS request only: the same descriptor generated for package alpha, then
	// beta, then alpha again (one process after the other) carries the package clause of its own request
	{
		var prev []byte
		for k, target := range []string{"alphapkg", "betapkg", "alphapkg", "gammapkg"} {
			e := descgen.K5()
			e.Cfg.TargetPackageName = target
			c := caseFrom(e)
			c.NoWrite = true
			c.Name = "k5_target_seq" // same config file name and file name every time
			r.WS.Prepare(c)
			r.WS.Generate(c)
			r.Evaluations++
			r.Counters["sequential-runs-with-another-target-package"]++
			if c.GenErr != "" {
				r.violate("run-failed", c.Name, "", target, "plugin run failed: "+c.GenErr, nil)
				break
			}
			if c.TFPackage != target {
				r.violate("state-between-runs/package-clause", c.Name, "", target, fmt.Sprintf("run %d asked for package %q, the file says package %q", k, target, c.TFPackage), nil)
			}
			if k == 2 && prev != nil && sha(prev) != sha(c.Plugin.Stdout) {
				r.violate("state-between-runs/response", c.Name, "", target, "the same request gave another response after a run with a different target package", nil)
			}
			if k == 0 {
				prev = c.Plugin.Stdout
			}
		}
	}
	if len(groups) > 0 {
		g := groups[0]
		r.sample(map[string]interface{}{"request": g.name, "runs": runs, "shuffled_configs": shuffles, "sha256": sha(g.cases[0].Plugin.Stdout),
			"yaml_original": g.cases[0].YAML, "yaml_shuffled": g.cases[runs].YAML, "param_shuffled": g.cases[runs].Param})
	}
	{
		// the race-instrumented plugin (all requests in the thorough tier, a few in the quick tier)
		if _, err := r.WS.BuildPlugin("race"); err != nil {
			r.Inconclusive = append(r.Inconclusive, err.Error())
			return
		}
		var rc []*pipeline.Case
		for gi, g := range groups {
			if !r.thorough() && gi >= 3 {
				break
			}
			for k := 0; k < 3; k++ {
				d := *g.cases[0]
				d.PluginVariant = "race"
				d.PluginEnv = []string{fmt.Sprintf("GOMAXPROCS=%d", []int{1, 2, 16}[k]), fmt.Sprintf("GORACE=halt_on_error=0 exitcode=0 log_path=%s/out/race-%d-%d", r.WS.Dir, gi, k)}
				d.GenErr = ""
				rc = append(rc, &d)
			}
		}
		pipeline.Parallel(len(rc), func(i int) { r.WS.Generate(rc[i]) })
		for i, c := range rc {
			r.Evaluations++
			g := groups[i/3]
			if c.Plugin.Exit == 0 && sha(c.Plugin.Stdout) != sha(g.cases[0].Plugin.Stdout) {
				r.violate("nondeterministic/race-build", g.name, "", strings.Join(c.PluginEnv, " "), "the response of the -race build differs: "+firstDiff(g.cases[0].TFContent, c.TFContent), nil)
			}
		}
		n := countRaceReports(r.WS.Dir + "/out")
		r.Counters["race-reports"] = n
		r.Notes = append(r.Notes, fmt.Sprintf("race detector: %d reports over %d runs with GOMAXPROCS in {1,2,16}; reports never decide (only differing hashes do)", n, len(rc)))
	}
}

// ---------------------------------------------------------------------------
// C16 command line and YAML are equivalent channels

func checkC16(r *Run) {
	type mk = func() *descgen.Entry
	cfgs := []mk{descgen.K1, descgen.K9,
		// a custom duration type that is not called `Duration`
		func() *descgen.Entry {
			e := descgen.K1()
			e.Cfg.DurationCustomType = "BillingDuration"
			return descgen.Rename(e, "k1billing")
		},
		// list entries written with the struct package as a prefix name nothing (on either channel)
		func() *descgen.Entry {
			e := descgen.K5()
			c := e.Cfg
			c.DefaultPackageName, c.TargetPackageName = "example.com/api/structs", "tfschema"
			occ := descgen.Occurrences(e.File, c.Types)
			q := func(i int) string { return c.DefaultPackageName + "." + occ[(i*3)%len(occ)].Path }
			c.Types = append(c.Types, c.DefaultPackageName+"."+e.File.Messages[len(e.File.Messages)-1].Name)
			c.ExcludeFields = append(c.ExcludeFields, q(1))
			c.ComputedFields = append(c.ComputedFields, q(2), occ[1].Path)
			c.RequiredFields = append(c.RequiredFields, q(3))
			c.SensitiveFields = append(c.SensitiveFields, q(4), occ[2].Path)
			return descgen.Rename(e, "k5qualified")
		}}
	nr := r.pick(6, 78)
	for i := 0; i < nr; i++ {
		i := i
		cfgs = append(cfgs, func() *descgen.Entry {
			e := descgen.Random(r.Seed, i, descgen.RandOpt{})
			if i%3 == 0 {
				e.Cfg.TargetPackageName = "othertarget"
			}
			return e
		})
	}
	splits := r.pick(5, 12)
	rnd := rand.New(rand.NewSource(r.Seed*71 + 3))
	var all []*pipeline.Case
	type grp struct {
		name  string
		cases []*pipeline.Case
	}
	var groups []grp
	for _, m := range cfgs {
		g := grp{}
		for k := 0; k < splits; k++ {
			e := m()
			g.name = e.Name
			c := caseFrom(e)
			c.NoWrite = true
			c.Name = fmt.Sprintf("%s_split%d", e.Name, k)
			c.Delivery.CLI = map[string]bool{}
			switch k {
			case 0: // all YAML
			case 1: // everything expressible on the command line
				for _, o := range descgen.CLIOptions {
					c.Delivery.CLI[o] = true
				}
			default:
				for _, o := range descgen.CLIOptions {
					if rnd.Intn(2) == 0 {
						c.Delivery.CLI[o] = true
					}
				}
			}
			var cli []string
			for o := range c.Delivery.CLI {
				cli = append(cli, o)
			}
			sort.Strings(cli)
			c.Tags = append(c.Tags, "cli:"+strings.Join(cli, "+"))
			g.cases = append(g.cases, c)
			all = append(all, c)
		}
		groups = append(groups, g)
	}
	// a configuration that fits on the command line completely: the file named by config= may then be
	// blank or hold comments only; and list entries shared between lists written as YAML anchors / aliases
	{
		mkPlain := func() *descgen.Entry {
			sub := descgen.M("PlainSub", descgen.F("Note"), descgen.F("Level", descgen.Sc(ir.Int32)))
			m := descgen.M("Plain", descgen.F("Name"), descgen.F("Count", descgen.Sc(ir.Int64)), descgen.F("Secret"), descgen.F("Sub", descgen.MsgT("PlainSub")), descgen.F("Subs", descgen.MsgT("PlainSub"), descgen.Rep()))
			f := &ir.File{Name: "plain16.proto", Package: "plain16", Messages: []*ir.Message{m, sub}}
			descgen.AutoComments(f)
			c := &ir.Config{Types: []string{"Plain", "PlainSub"}, Sort: true, SortSet: true, DurationCustomType: "Duration", DefaultPackageName: "example.com/api/plain16", TargetPackageName: "plaintf",
				ExcludeFields: []string{"Plain.Subs.Level"}, ComputedFields: []string{"Plain.Count", "PlainSub.Note"},
				RequiredFields: []string{"Plain.Name", "Plain.Secret"}, SensitiveFields: []string{"Plain.Secret", "PlainSub.Note", "Plain.Name"}}
			return &descgen.Entry{Name: "plain16", File: f, Cfg: c}
		}
		g := grp{name: "plain16"}
		for k, what := range []string{"all-yaml", "all-cli/no-config-param", "all-cli/comment-only-file", "all-cli/blank-file", "all-yaml/anchors-and-aliases", "all-yaml/list-parameters-without-value", "all-yaml/config-path-with-plus-signs", "all-yaml/config-path-not-in-clean-form"} {
			e := mkPlain()
			c := caseFrom(e)
			c.NoWrite = true
			c.Name = fmt.Sprintf("plain16_split%d", k)
			c.Delivery.CLI = map[string]bool{}
			if strings.HasPrefix(what, "all-cli") {
				for _, o := range descgen.CLIOptions {
					c.Delivery.CLI[o] = true
				}
			}
			switch k {
			case 2:
				c.Delivery.Blank = "# every option is given on the command line\n"
			case 3:
				c.Delivery.Blank = "\n"
			case 4:
				c.Delivery.Anchors = true
			case 5:
				// a list parameter that is present but empty leaves the YAML list in force
				// (the same goes for the string options)
				c.Delivery.Extra = []string{"exclude_fields=", "computed_fields=", "required_fields=", "sensitive=", "types=", "target_package_name=", "default_package_name=", "custom_duration="}
			case 6:
				// where the file lives is no part of the configuration: `+` separates list items, not paths
				c.CfgDir = "cfg-c++/a+b"
			case 7:
				// ... nor is the way the path is spelled
				c.CfgDir = "cfg-dots/./sub/..//sub"
			}
			c.Tags = append(c.Tags, what)
			g.cases = append(g.cases, c)
			all = append(all, c)
		}
		groups = append(groups, g)
	}
	// precedence: YAML carries a decoy value, the command line the real one
	type conflict struct {
		real, decoy *pipeline.Case
		opt         string
	}
	var conflicts []conflict
	for ci, m := range cfgs {
		if ci >= r.pick(4, 40) {
			break
		}
		for _, opt := range descgen.CLIOptions {
			// the boolean option is exercised in both directions (false over true, true over false)
			variants := []string{""}
			if opt == "sort" {
				variants = []string{"on", "off"}
			}
			for _, v := range variants {
				e := m()
				d := m()
				if opt == "sort" {
					e.Cfg.Sort, e.Cfg.SortSet = v == "on", true
					d.Cfg.Sort, d.Cfg.SortSet = v == "on", true
				}
				real := caseFrom(e)
				real.NoWrite = true
				real.Name = fmt.Sprintf("%s_real_%s%s", e.Name, opt, v)
				real.Delivery.CLI = map[string]bool{opt: true}
				decoy := caseFrom(d)
				decoy.NoWrite = true
				decoy.Name = fmt.Sprintf("%s_decoy_%s%s", d.Name, opt, v)
				conflicts = append(conflicts, conflict{real, decoy, opt})
				all = append(all, real)
			}
		}
	}
	for _, c := range all {
		r.WS.Prepare(c)
	}
	// build the conflicting requests: YAML with the decoy value + CLI with the real value
	for i := range conflicts {
		cf := &conflicts[i]
		dc := cf.decoy.Cfg
		occ := descgen.Occurrences(cf.decoy.File, dc.Types)
		some := "Nope.Nothing"
		if len(occ) > 0 {
			some = occ[(i*7)%len(occ)].Path
		}
		switch cf.opt {
		case "types":
			dc.Types = []string{cf.decoy.File.Messages[len(cf.decoy.File.Messages)-1].Name}
		case "exclude_fields":
			dc.ExcludeFields = []string{some}
		case "computed_fields":
			dc.ComputedFields = []string{some}
		case "required_fields":
			dc.RequiredFields = []string{some}
		case "sensitive_fields":
			dc.SensitiveFields = []string{some}
		case "default_package_name":
			dc.DefaultPackageName = "example.com/decoy/pkg"
		case "target_package_name":
			dc.TargetPackageName = "decoytarget"
		case "duration_custom_type":
			// (a cast type some fields of K1 really have: were it honoured next to the command-line one, output would change)
			dc.DurationCustomType = "BillingDuration"
		case "sort":
			dc.Sort, dc.SortSet = !cf.real.Cfg.Sort, true
		}
		r.WS.Prepare(cf.decoy) // writes the decoy YAML
		// the CLI part of the real case overrides it
		_, params := descgen.Emit(cf.real.Cfg, cf.real.Delivery)
		if len(params) == 0 {
			cf.decoy = nil // the real configuration does not set this option: nothing to override
			continue
		}
		yamlPath := filepath.Join(r.WS.Dir, "cfg", cf.decoy.Name+".yaml")
		p := descgen.Param(params, yamlPath)
		cf.decoy.RawParam = &p
		cf.decoy.Param = p
		cf.decoy.Request = descgen.MarshalRequest(descgen.Request(cf.decoy.File, p))
		all = append(all, cf.decoy)
	}
	// error cases
	type errCase struct {
		c    *pipeline.Case
		what string
	}
	var errs []errCase
	mkErr := func(what, param string, prep func(dir string)) {
		e := descgen.K9()
		c := caseFrom(e)
		c.NoWrite = true
		c.Name = "err_" + what
		r.WS.Prepare(c)
		if prep != nil {
			prep(filepath.Join(r.WS.Dir, "cfg"))
		}
		p := strings.ReplaceAll(param, "$CFG", filepath.Join(r.WS.Dir, "cfg"))
		c.RawParam = &p
		c.Param = p
		c.Request = descgen.MarshalRequest(descgen.Request(c.File, p))
		errs = append(errs, errCase{c, what})
		all = append(all, c)
	}
	mkErr("no-types-no-config", "sort=true", nil)
	mkErr("no-types-empty-param", "", nil)
	mkErr("types-parameter-without-value", "types=", nil)
	mkErr("types-parameter-without-value-and-sort", "sort=true,types=", nil)
	mkErr("missing-file", "types=User,config=$CFG/does-not-exist.yaml", nil)
	mkErr("directory-instead-of-file", "types=User,config=$CFG", nil)
	mkErr("unparsable-yaml", "types=User,config=$CFG/broken.yaml", func(dir string) {
		ioutil.WriteFile(filepath.Join(dir, "broken.yaml"), []byte("types: [User\n  sort: : true\n\t- x"), 0o644)
	})
	mkErr("yaml-wrong-shape", "types=User,config=$CFG/shape.yaml", func(dir string) {
		ioutil.WriteFile(filepath.Join(dir, "shape.yaml"), []byte("types: 17\nsort: [1,2]\n"), 0o644)
	})
	mkErr("yaml-scalar-instead-of-list", "types=User,config=$CFG/scalar.yaml", func(dir string) {
		ioutil.WriteFile(filepath.Join(dir, "scalar.yaml"), []byte("exclude_fields: User.Title\n"), 0o644)
	})
	mkErr("yaml-mapping-instead-of-list", "types=User,config=$CFG/mapping.yaml", func(dir string) {
		ioutil.WriteFile(filepath.Join(dir, "mapping.yaml"), []byte("required_fields:\n  User.Title: true\n"), 0o644)
	})
	mkErr("yaml-without-types", "config=$CFG/notypes.yaml", func(dir string) {
		ioutil.WriteFile(filepath.Join(dir, "notypes.yaml"), []byte("sort: true\n"), 0o644)
	})
	mkErr("yaml-empty-types", "config=$CFG/emptytypes.yaml", func(dir string) {
		ioutil.WriteFile(filepath.Join(dir, "emptytypes.yaml"), []byte("types: []\n"), 0o644)
	})
	mkErr("unreadable-file", "types=User,config=$CFG/unreadable.yaml", func(dir string) {
		ioutil.WriteFile(filepath.Join(dir, "unreadable.yaml"), []byte("types: [User]\n"), 0o000)
	})
	pipeline.Parallel(len(all), func(i int) { r.WS.Generate(all[i]) })
	for _, g := range groups {
		base := g.cases[0]
		r.distinctAdd(g.name)
		for _, c := range g.cases {
			r.Evaluations++
			r.distinctAdd(g.name + "/" + c.Tags[len(c.Tags)-1])
			r.Counters["splits"]++
			if c.GenErr != "" {
				r.violate("split/run-failed", c.Name, "", c.Tags[len(c.Tags)-1], c.GenErr, map[string]interface{}{"param": c.Param, "yaml": c.YAML})
				continue
			}
			if c.TFContent != base.TFContent {
				opts := c.Tags[len(c.Tags)-1]
				r.violate("split/output-differs", g.name, "", opts, fmt.Sprintf("delivering %s on the command line changes the generated file: %s", opts, firstDiff(base.TFContent, c.TFContent)),
					map[string]interface{}{"param": c.Param, "yaml": c.YAML, "yaml_all": base.YAML})
			}
		}
	}
	for _, cf := range conflicts {
		if cf.decoy == nil {
			continue
		}
		r.Evaluations++
		r.Counters["conflicts"]++
		r.distinctAdd("conflict/" + cf.real.Name)
		if cf.real.GenErr != "" || cf.decoy.GenErr != "" {
			r.violate("precedence/run-failed/"+cf.opt, cf.real.Name, "", cf.opt, "run failed: "+cf.real.GenErr+" / "+cf.decoy.GenErr, map[string]interface{}{"param": cf.decoy.Param, "yaml": cf.decoy.YAML})
			continue
		}
		if cf.real.TFContent != cf.decoy.TFContent {
			r.violate("precedence/"+cf.opt, cf.real.Name, "", cf.opt, fmt.Sprintf("the command-line value of %s does not take precedence over the YAML value: %s", cf.opt, firstDiff(cf.real.TFContent, cf.decoy.TFContent)),
				map[string]interface{}{"param": cf.decoy.Param, "yaml": cf.decoy.YAML})
		}
	}
	for _, ec := range errs {
		r.Evaluations++
		r.Counters["error-cases"]++
		r.distinctAdd("error/" + ec.what)
		c := ec.c
		failed := c.Plugin.Exit != 0 || (c.Resp != nil && c.Resp.Error != nil)
		hasFile := c.Resp != nil && len(c.Resp.File) > 0
		if ec.what == "unreadable-file" && os.Geteuid() == 0 {
			continue // root reads everything: the case cannot be staged
		}
		if !failed || hasFile {
			r.violate("error-case/"+ec.what, c.Name, "", ec.what, fmt.Sprintf("the plugin did not fail (exit=%d, error set=%v, files=%v)", c.Plugin.Exit, c.Resp != nil && c.Resp.Error != nil, hasFile),
				map[string]interface{}{"param": c.Param, "stderr": tail(string(c.Plugin.Stderr), 6)})
		}
	}
	if len(groups) > 0 && len(groups[0].cases) > 2 {
		c := groups[0].cases[2]
		r.sample(map[string]interface{}{"configuration": groups[0].name, "split": c.Tags[len(c.Tags)-1], "param": c.Param, "yaml": c.YAML})
	}
}

// ---------------------------------------------------------------------------
// C18 whole or not at all

var timeRe = regexp.MustCompile(`time="[^"]*"`)

func normLog(s string) []string {
	var out []string
	for _, l := range strings.Split(s, "\n") {
		l = strings.TrimSpace(timeRe.ReplaceAllString(l, ""))
		if l != "" {
			out = append(out, l)
		}
	}
	return out
}

var failedMsgRe = regexp.MustCompile(`failed to build the message ([A-Za-z_][A-Za-z0-9_]*)`)

func checkC18(r *Run) {
	type mk = func() *descgen.Entry
	var files []mk
	// descriptors without temporal fields, so that an inserted one is the only unmappable field
	files = append(files, descgen.K18, descgen.K15, descgen.K5, func() *descgen.Entry { return descgen.K10(false) }, descgen.K8, descgen.K2)
	nr := r.pick(2, 36)
	for i := 0; i < nr; i++ {
		i := i
		files = append(files, func() *descgen.Entry {
			return descgen.Random(r.Seed, i, descgen.RandOpt{NoTemporal: true, NoCustom: true, Plain: true})
		})
	}
	// the temporal faults come in two flavours: neither type configured, or only the other one
	kinds := []string{"time-without-time_type", "duration-without-duration_type", "map-with-int32-key",
		"time-without-time_type/duration_type-set", "duration-without-duration_type/time_type-set",
		"map-with-sfixed32-key", "map-with-fixed64-key", "map-with-bool-key",
		"repeated-time-without-time_type", "repeated-duration-without-duration_type", "map-of-time-without-time_type",
		// integers cast to a duration: to the standard type (while a custom duration type is configured as well) and to the custom type
		"cast-std-duration-without-duration_type", "cast-custom-duration-without-duration_type"}
	var all, compiled []*pipeline.Case
	type fcase struct {
		base, faulted, repaired *pipeline.Case
		// partial: the offending field is excluded by its full paths below ONE of the affected
		// types only: that type must come back whole, the other affected types stay skipped
		partial     *pipeline.Case
		partialRoot string
		msg, kind   string
		hit, spared []string
	}
	var fcs []fcase
	for fi, m := range files {
		be := m()
		if len(be.Cfg.Types) == 1 && len(be.File.Messages) > 1 {
			// select a second root so that "other selected types are unaffected" has something to bite on
			be.Cfg.Types = append(be.Cfg.Types, be.File.Messages[len(be.File.Messages)-1].Name)
		}
		types := append([]string(nil), be.Cfg.Types...)
		curKind := ""
		strip := func(e *descgen.Entry) {
			e.Cfg.Types = append([]string(nil), types...)
			e.Cfg.TimeType, e.Cfg.DurationType = nil, nil
			switch curKind {
			case "time-without-time_type/duration_type-set":
				e.Cfg.DurationType = descgen.DurQualified(false)
			case "duration-without-duration_type/time_type-set":
				e.Cfg.TimeType = descgen.TimeQualified(true)
			}
			e.Cfg.Sort, e.Cfg.SortSet = true, true
		}
		strip(be)
		base := caseFrom(be)
		base.NoWrite = true
		base.Name = be.Name + "_base"
		all = append(all, base)
		// one fault-free run per configuration flavour
		bases := map[string]*pipeline.Case{"": base}
		for _, kk := range kinds[3:5] {
			curKind = kk
			e := m()
			if len(e.Cfg.Types) == 1 && len(e.File.Messages) > 1 {
				e.Cfg.Types = types
			}
			strip(e)
			b := caseFrom(e)
			b.NoWrite = true
			b.Name = fmt.Sprintf("%s_base%d", e.Name, len(bases))
			bases[kk] = b
			all = append(all, b)
		}
		curKind = ""
		// positions: every message reachable from some selected type
		posSet := map[string]bool{}
		var positions []string
		for _, t := range types {
			for _, msg := range descgen.Reachable(be.File, t) {
				// a message without fields changes its nature when a field is added (the
				// exclusion would leave it without any field): not a position of the statement
				if !posSet[msg.Name] && len(msg.Fields) > 0 {
					posSet[msg.Name] = true
					positions = append(positions, msg.Name)
				}
			}
		}
		for pi, pos := range positions {
			for ki, kind := range kinds {
				if !r.thorough() && (pi+ki+fi)%2 == 1 && pi > 0 {
					continue
				}
				curKind = kind
				// the offending field has an UpperCamel or a lower_snake proto name
				fname := "ZzUnmappable"
				switch (pi + ki) % 3 {
				case 1:
					fname = "zz_unmappable"
				case 2:
					fname = "default" // a Go keyword is a fine proto field name
				}
				build := func(excl bool, name string, exclPathsOf ...string) *pipeline.Case {
					e := m()
					strip(e)
					msg := e.File.Msg(pos, false)
					var f *ir.Field
					switch kind {
					case "time-without-time_type", "time-without-time_type/duration_type-set":
						f = descgen.F(fname, descgen.TS())
					case "duration-without-duration_type", "duration-without-duration_type/time_type-set":
						f = descgen.F(fname, descgen.Dur())
					case "repeated-time-without-time_type":
						f = descgen.F(fname, descgen.TS(), descgen.Rep())
					case "repeated-duration-without-duration_type":
						f = descgen.F(fname, descgen.Dur(), descgen.Rep(), descgen.NonNull())
					case "map-of-time-without-time_type":
						f = descgen.F(fname, descgen.TS(), descgen.MapOf())
					case "cast-std-duration-without-duration_type":
						f = descgen.F(fname, descgen.Sc(ir.Int64), descgen.Cast("time.Duration"))
					case "cast-custom-duration-without-duration_type":
						f = descgen.F(fname, descgen.Sc(ir.Int64), descgen.Cast("Duration"))
					case "map-with-sfixed32-key":
						f = descgen.F(fname, descgen.MapOf(), descgen.KeyT(ir.Sfixed32))
					case "map-with-fixed64-key":
						f = descgen.F(fname, descgen.MapOf(), descgen.KeyT(ir.Fixed64))
					case "map-with-bool-key":
						f = descgen.F(fname, descgen.MapOf(), descgen.KeyT(ir.Bool))
					default:
						f = descgen.F(fname, descgen.MapOf(), descgen.KeyT(ir.Int32))
					}
					if fname == "zz_unmappable" {
						// hidden from JSON is not hidden from the generator
						descgen.JSON("-")(f)
					}
					f.Number = 900
					msg.Fields = append(msg.Fields, f)
					if excl {
						e.Cfg.ExcludeFields = append(e.Cfg.ExcludeFields, pos+"."+fname)
						// an excluded field is gone whatever other lists name it as well
						switch (pi + ki) % 4 {
						case 1:
							e.Cfg.RequiredFields = append(e.Cfg.RequiredFields, pos+"."+fname)
						case 2:
							e.Cfg.SensitiveFields = append(e.Cfg.SensitiveFields, pos+"."+fname)
						case 3:
							e.Cfg.ComputedFields = append(e.Cfg.ComputedFields, pos+"."+fname)
						}
					}
					for _, root := range exclPathsOf {
						for _, o := range descgen.Occurrences(e.File, []string{root}) {
							if o.Field.Name == fname {
								e.Cfg.ExcludeFields = append(e.Cfg.ExcludeFields, o.Path)
							}
						}
					}
					exclPathsOf = nil
					c := caseFrom(descgen.Rename(e, name))
					return c
				}
				faulted := build(false, fmt.Sprintf("%sf%d_%d", be.Name, pi, ki))
				faulted.NoWrite = true
				repaired := build(true, fmt.Sprintf("%sx%d_%d", be.Name, pi, ki))
				fbase := base
				if b, ok := bases[kind]; ok {
					fbase = b
				}
				fc := fcase{base: fbase, faulted: faulted, repaired: repaired, msg: pos, kind: kind}
				for _, t := range types {
					reach := false
					for _, msg := range descgen.Reachable(be.File, t) {
						if msg.Name == pos {
							reach = true
						}
					}
					if reach {
						fc.hit = append(fc.hit, t)
					} else {
						fc.spared = append(fc.spared, t)
					}
				}
				// (a root that is the faulted message itself is no candidate: its full path equals the
				// Message.Field key, which addresses every occurrence)
				var cand []string
				for _, t := range fc.hit {
					if t != pos {
						cand = append(cand, t)
					}
				}
				if len(fc.hit) >= 2 && len(cand) > 0 {
					fc.partialRoot = cand[(pi+ki)%len(cand)]
					fc.partial = build(false, fmt.Sprintf("%sy%d_%d", be.Name, pi, ki), fc.partialRoot)
					fc.partial.NoWrite = true
					all = append(all, fc.partial)
				}
				fcs = append(fcs, fc)
				all = append(all, faulted, repaired)
				if len(compiled) < r.pick(10, 120) {
					compiled = append(compiled, repaired)
				} else {
					repaired.NoWrite = true
				}
			}
		}
	}
	r.generate(all)
	r.compile(compiled)
	baseFailed := map[string]bool{}
	for _, fc := range fcs {
		r.Evaluations++
		r.distinctAdd(fc.faulted.Name)
		r.Counters["fault:"+fc.kind]++
		id := fmt.Sprintf("%s@%s", fc.kind, fc.msg)
		f := fc.faulted
		if fc.base.GenErr != "" {
			if strings.HasPrefix(fc.base.GenErr, "HARNESS") {
				r.Inconclusive = append(r.Inconclusive, "C18 base run failed: "+fc.base.GenErr)
			} else if !baseFailed[fc.base.Name] {
				// the fault-free descriptor with this configuration is in D: "other selected types are unaffected"
				// has no meaning when nothing is generated at all
				baseFailed[fc.base.Name] = true
				r.violate("base-run-failed", fc.base.Name, "", "-", "the plugin fails on the fault-free descriptor: "+fc.base.GenErr, map[string]interface{}{"stderr": tail(string(fc.base.Plugin.Stderr), 8)})
			}
			continue
		}
		if f.Plugin.Exit != 0 || f.Resp == nil || f.Resp.Error != nil {
			r.violate("faulted-run-failed/"+fc.kind, f.Name, "", id, fmt.Sprintf("plugin failed as a whole instead of skipping the type: exit=%d %s", f.Plugin.Exit, f.GenErr), map[string]interface{}{"stderr": tail(string(f.Plugin.Stderr), 8)})
			continue
		}
		got := generatedFuncs(f)
		baseFns := generatedFuncs(fc.base)
		for _, t := range fc.hit {
			if fns, ok := got[t]; ok {
				r.violate("partial-type-emitted/"+fc.kind, f.Name, t, id, fmt.Sprintf("%d functions for %s although its field %s.ZzUnmappable cannot be mapped", len(fns), t, fc.msg), nil)
			}
			named := false
			baseLog := map[string]bool{}
			for _, l := range normLog(string(fc.base.Plugin.Stderr)) {
				baseLog[l] = true
			}
			for _, l := range normLog(string(f.Plugin.Stderr)) {
				if !baseLog[l] && strings.Contains(l, t) {
					named = true
				}
			}
			if !named {
				r.violate("no-diagnostic-naming-type/"+fc.kind, f.Name, t, id, "stderr has no new line naming the skipped type "+t, map[string]interface{}{"stderr": tail(string(f.Plugin.Stderr), 12)})
			}
		}
		// a diagnostic that says which message failed must say it of an affected type (the wording is the
		// generator's own; a line worded otherwise is not judged here)
		{
			baseLog := map[string]bool{}
			for _, l := range normLog(string(fc.base.Plugin.Stderr)) {
				baseLog[l] = true
			}
			for _, l := range normLog(string(f.Plugin.Stderr)) {
				if m := failedMsgRe.FindStringSubmatch(l); m != nil && !baseLog[l] && !contains(fc.hit, m[1]) {
					r.violate("diagnostic-names-another-type/"+fc.kind, f.Name, m[1], id, fmt.Sprintf("the diagnostic blames %s, the unmappable field sits below %v: %s", m[1], fc.hit, l), nil)
				}
			}
		}
		for _, t := range fc.spared {
			for fn, text := range baseFns[t] {
				r.Counters["spared-function-texts-compared"]++
				if got[t][fn] != text {
					r.violate("other-type-affected/"+fc.kind, f.Name, t, id, fmt.Sprintf("%s of the unaffected type %s changed or vanished", fn, t), nil)
				}
			}
		}
		// excluding the field by its full paths below one affected type restores exactly that type
		if y := fc.partial; y != nil {
			r.Counters["partial-exclusions"]++
			if y.Plugin.Exit != 0 || y.Resp == nil || y.Resp.Error != nil {
				r.violate("partial-exclusion-run-failed/"+fc.kind, y.Name, fc.partialRoot, id, "plugin failed: "+y.GenErr, nil)
			} else {
				yf := generatedFuncs(y)
				for _, t := range fc.hit {
					switch {
					case t == fc.partialRoot && len(yf[t]) != 3:
						r.violate("path-exclusion-does-not-restore/"+fc.kind, y.Name, t, id, fmt.Sprintf("%d of 3 functions for %s although every path from %s to the offending field is excluded (%v)", len(yf[t]), t, t, y.Cfg.ExcludeFields),
							map[string]interface{}{"stderr": tail(string(y.Plugin.Stderr), 10)})
					case t != fc.partialRoot && len(yf[t]) != 0:
						r.violate("partial-type-emitted/"+fc.kind, y.Name, t, id, fmt.Sprintf("%d functions for %s, whose path to the unmappable field is not excluded", len(yf[t]), t), nil)
					}
				}
				for fn, text := range baseFns[fc.partialRoot] {
					if yf[fc.partialRoot][fn] != "" && yf[fc.partialRoot][fn] != text {
						r.violate("exclusion-not-surgical/"+fc.kind, y.Name, fc.partialRoot, id, fn+" differs from the fault-free run", nil)
					}
				}
			}
		}
		// excluding the offending field restores full generation
		x := fc.repaired
		if x.GenErr != "" || x.BuildErr != "" {
			r.violate("exclusion-does-not-restore/"+fc.kind, x.Name, "", id, "with the field excluded: "+firstLine(x.GenErr+x.BuildErr), nil)
			continue
		}
		xf := generatedFuncs(x)
		for _, t := range append(append([]string(nil), fc.hit...), fc.spared...) {
			if len(xf[t]) != 3 {
				r.violate("exclusion-does-not-restore/"+fc.kind, x.Name, t, id, fmt.Sprintf("%d of 3 functions for %s with the offending field excluded", len(xf[t]), t), nil)
				continue
			}
			for fn, text := range baseFns[t] {
				if xf[t][fn] != text {
					r.violate("exclusion-not-surgical/"+fc.kind, x.Name, t, id, fn+" differs from the fault-free run: "+firstDiff(text, xf[t][fn]), nil)
				}
			}
		}
	}
	if len(fcs) > 0 {
		fc := fcs[len(fcs)/2]
		r.sample(map[string]interface{}{"file": fc.base.File.Name, "types": fc.base.Cfg.Types, "fault": fc.kind, "inserted_into": fc.msg, "types_that_reach_it": fc.hit, "types_that_do_not": fc.spared,
			"functions_emitted": fc.faulted.Funcs, "new_stderr": tail(string(fc.faulted.Plugin.Stderr), 4)})
	}
}

func init() {
	register(&Property{ID: "C12", Level: "exploration",
		Technique: "runtime monitoring: go/ast function-set and byte-wise function-text comparison across plugin runs",
		Rule:      "files = curated multi-message descriptors (k7, k9, k10a/b with dependency file, k5, k1) + seeded random descriptors; per file S selections of `types` (configured roots, a single message, all messages, random subsets; with non-message names and near-miss names added) crossed with request extensions (unrelated messages at the start and the end of the file, an unrelated dependency file; counters ext:*); oracle: functions exist for exactly the selected messages of the file, three per type, and the source text of every function is byte-identical in all runs that select its type (counter function-texts-compared); builds with a single selected type compile (counter single-type-builds); distinct = distinct (file, selection, extension) runs",
		Check:     checkC12})
	register(&Property{ID: "C14", Level: "exploration",
		Technique: "runtime monitoring: sha256 of repeated plugin process runs (plain and -race builds)",
		Rule:      "requests = curated descriptors with rich configurations (maps in every option) + seeded random descriptors x configurations; per request R identical process runs (Go randomises map iteration per process) plus S runs with the YAML keys, the set-like lists and the `+`-separated lists permuted and options moved between channels; oracle: one sha256 over all responses of a request; the requests (three of them in the quick tier, all in the thorough tier) also go through the -race build with GOMAXPROCS 1/2/16: race reports are counted and reported, only differing hashes decide; distinct = distinct requests",
		Check:     checkC14})
	register(&Property{ID: "C16", Level: "exploration",
		Technique: "runtime monitoring: byte comparison of plugin outputs across delivery channels + exit status of error cases",
		Rule:      "configurations = k1, k9 and seeded random configurations; per configuration the options expressible on both channels (types, exclude_fields, computed_fields, required_fields, sensitive, default_package_name, target_package_name, custom_duration, sort) are delivered all by YAML, all by parameter string, and in random splits (counter splits): the generated file must be byte-identical; per option a conflicting pair (decoy value in YAML, real value on the command line; counter conflicts) must equal the run with the real value alone; error cases (no types at all, missing file, directory, unparsable YAML, wrong YAML shape, YAML without types; counter error-cases) must fail (non-zero exit or error set) without producing a file; distinct = distinct (configuration, split) combinations",
		Check:     checkC16})
	register(&Property{ID: "C18", Level: "fault_enumeration",
		Technique: "runtime monitoring with fault injection into the request: function-set and function-text differential",
		Rule:      "descriptors without temporal fields (k5, k10a, k8, k2, seeded random) with two selected types and no time_type / duration_type configured; faults: one unmappable field (timestamp, duration, map with int32 key; counters fault:*) appended to every message reachable from a selected type, one at a time; oracle: exit 0, no function of any selected type that reaches the field, a new stderr line naming each such type, functions of the other selected types byte-identical to the fault-free run (counter spared-function-texts-compared); the same request with an exclude_fields entry for the field regenerates all functions byte-identically to the fault-free run and compiles; distinct = distinct (descriptor, position, fault kind) triples",
		Check:     checkC18})
}

func contains(l []string, s string) bool {
	for _, x := range l {
		if x == s {
			return true
		}
	}
	return false
}

// noClash removes dependency messages whose simple name equals a message of the generated
// file (and the fields that use them): `types` selects by simple name, and the statement of
// C12 only covers dependency files whose names do not clash.
func noClash(e *descgen.Entry) *descgen.Entry {
	if e.File.Dep == nil {
		return e
	}
	clash := map[string]bool{}
	var keep []*ir.Message
	for _, dm := range e.File.Dep.Messages {
		if e.File.Msg(dm.Name, false) != nil {
			clash[dm.Name] = true
			continue
		}
		keep = append(keep, dm)
	}
	e.File.Dep.Messages = keep
	for _, m := range e.File.Messages {
		var fs []*ir.Field
		for _, f := range m.Fields {
			if f.RefDep && f.Kind == ir.KMessage && clash[f.Ref] {
				continue
			}
			fs = append(fs, f)
		}
		m.Fields = fs
	}
	return e
}

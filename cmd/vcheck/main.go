// vcheck is the orchestrator behind run.sh: corpus -> plugin runs -> scratch
// workspace -> build -> drivers -> offline checkers -> evidence.
package main

import (
	"encoding/json"
	"fmt"
	"io/ioutil"
	"os"
	"path/filepath"
	"regexp"
	"sort"
	"strconv"
	"strings"
	"time"

	"verif/internal/pipeline"
	"verif/rt"
)

// Outcome accumulates what one check run observed.
type Outcome struct {
	Prop         string
	Tier         string
	Seed         int64
	Level        string
	Rule         string
	Evaluations  int
	distinct     map[string]bool
	Samples      []interface{}
	Counters     map[string]int
	Violations   []rt.Violation
	ViolCount    map[string]int
	Inconclusive []string
	Notes        []string
	Cases        []string
	Assumptions  []string
}

func (o *Outcome) distinctAdd(s string) { o.distinct[s] = true }

func (o *Outcome) violate(fp, caseName, typ, input, msg string, detail interface{}) {
	o.ViolCount[fp]++
	if o.ViolCount[fp] > 3 {
		return
	}
	o.Violations = append(o.Violations, rt.Violation{Prop: o.Prop, Fingerprint: fp, Case: caseName, Type: typ, Input: input, Message: msg, Detail: detail})
}

func (o *Outcome) sample(s interface{}) {
	if len(o.Samples) < 4 {
		o.Samples = append(o.Samples, s)
	}
}

// Run is the context handed to a property's check function.
type Run struct {
	*Outcome
	WS     *pipeline.Workspace
	Replay string
}

func (r *Run) thorough() bool { return r.Tier == "thorough" }

// pick returns q in the quick tier and t in the thorough tier.
func (r *Run) pick(q, t int) int {
	if r.thorough() {
		return t
	}
	return q
}

// Property describes one registered check.
type Property struct {
	ID    string
	Level string
	Rule  string
	Check func(r *Run)
	// Manifest texts
	Text      string
	Technique string
}

var properties = map[string]*Property{}

func register(p *Property) { properties[p.ID] = p }

var trustedBase = []string{
	"Go toolchain and type checker (go1.23.5)",
	"gogo/protobuf v1.3.2 descriptor handling and protoc-gen-gogo (the generator `make test` uses)",
	"terraform-plugin-framework v0.10.0 / terraform-plugin-go v0.12.0 (acceptance oracle tfsdk.State.Set)",
	"the harness's reference model (internal/refmodel), written from README and property statements",
	"the harness's assumptions about gogo's Go names are verified by reflection at driver start",
}

func main() {
	if len(os.Args) == 2 && os.Args[1] == "manifest" {
		writeManifest()
		return
	}
	if len(os.Args) < 3 {
		fmt.Fprintln(os.Stderr, "usage: vcheck <Cxx> <quick|thorough> [--replay path]")
		os.Exit(3)
	}
	id, tier := os.Args[1], os.Args[2]
	replay := ""
	for i := 3; i < len(os.Args); i++ {
		if os.Args[i] == "--replay" && i+1 < len(os.Args) {
			replay = os.Args[i+1]
			i++
		}
	}
	if tier == "--replay" && len(os.Args) > 3 {
		replay, tier = os.Args[3], "quick"
	}
	if t := os.Getenv("VERIF_TIER"); t != "" && (t == "quick" || t == "thorough") && len(os.Args) < 3 {
		tier = t
	}
	p, ok := properties[id]
	if !ok {
		fmt.Fprintln(os.Stderr, "unknown property", id)
		os.Exit(3)
	}
	seed := int64(1)
	if s := os.Getenv("VERIF_SEED"); s != "" {
		if v, err := strconv.ParseInt(s, 10, 64); err == nil {
			seed = v
		}
	}
	replayFP := ""
	if replay != "" {
		// a replay reruns the property's deterministic workload at the recorded seed and
		// tier and reports whether the recorded fingerprint recurs on the current tree
		var rec struct {
			Seed      int64        `json:"seed"`
			Tier      string       `json:"tier"`
			Violation rt.Violation `json:"violation"`
		}
		b, err := ioutil.ReadFile(filepath.Join(replay, "violation.json"))
		if err != nil || json.Unmarshal(b, &rec) != nil || rec.Violation.Fingerprint == "" {
			fmt.Println("INCONCLUSIVE property=" + id + " unreadable replay bundle " + replay)
			os.Exit(2)
		}
		seed, tier, replayFP = rec.Seed, rec.Tier, rec.Violation.Fingerprint
	}
	t0 := time.Now()
	out := &Outcome{Prop: id, Tier: tier, Seed: seed, Level: p.Level, Rule: p.Rule, distinct: map[string]bool{}, Counters: map[string]int{}, ViolCount: map[string]int{}}
	ws, err := pipeline.New()
	if err != nil {
		fmt.Println("INCONCLUSIVE property=" + id + " workspace: " + err.Error())
		os.Exit(2)
	}
	code := func() int {
		defer ws.Close()
		r := &Run{Outcome: out, WS: ws, Replay: replay}
		if _, err := ws.BuildPlugin(""); err != nil {
			// the tree under test does not build: nothing can be observed
			out.Inconclusive = append(out.Inconclusive, err.Error())
		} else {
			func() {
				defer func() {
					if e := recover(); e != nil {
						out.Inconclusive = append(out.Inconclusive, fmt.Sprintf("harness panic: %v", e))
					}
				}()
				p.Check(r)
			}()
		}
		if replayFP != "" {
			var keep []rt.Violation
			for _, v := range out.Violations {
				if v.Fingerprint == replayFP {
					keep = append(keep, v)
				}
			}
			out.Violations = keep
			if len(keep) == 0 {
				fmt.Printf("REPLAY property=%s fingerprint %q does not recur on the current tree\n", id, replayFP)
			}
		}
		return finish(out, time.Since(t0))
	}()
	os.Exit(code)
}

// Known findings -------------------------------------------------------------

type knownFinding struct {
	ID       string `json:"id"`
	Property string `json:"property"`
	// Fingerprint is a regular expression over violation fingerprints.
	Fingerprint string `json:"fingerprint"`
	// CaseTag optionally restricts the finding to cases / fields of a class.
	Where string `json:"where,omitempty"`
	What  string `json:"what"`
}

type knownFile struct {
	Findings []knownFinding `json:"findings"`
	Fixed    []string       `json:"fixed"`
}

func loadKnown() knownFile {
	var k knownFile
	b, err := ioutil.ReadFile(filepath.Join(pipeline.VerifDir, "known_findings.json"))
	if err == nil {
		json.Unmarshal(b, &k)
	}
	return k
}

func finish(o *Outcome, wall time.Duration) int {
	known := loadKnown()
	var real []rt.Violation
	knownHit := map[string]string{}
	for _, v := range o.Violations {
		matched := false
		for _, k := range known.Findings {
			if k.Property != o.Prop {
				continue
			}
			re, err := regexp.Compile(k.Fingerprint)
			if err != nil {
				continue
			}
			if re.MatchString(v.Fingerprint) {
				knownHit[k.ID] = k.What
				matched = true
				break
			}
		}
		if !matched {
			real = append(real, v)
		}
	}
	ids := make([]string, 0, len(knownHit))
	for id := range knownHit {
		ids = append(ids, id)
	}
	sort.Strings(ids)
	for _, id := range ids {
		fmt.Printf("KNOWN-FINDING: property=%s %s: %s\n", o.Prop, id, knownHit[id])
	}
	// replay bundles
	seenFP := map[string]bool{}
	var lines []string
	for i, v := range real {
		if seenFP[v.Fingerprint] || len(lines) >= 5 {
			continue
		}
		seenFP[v.Fingerprint] = true
		dir := filepath.Join(pipeline.VerifDir, "evidence", "replays", o.Prop, fmt.Sprintf("%d", i))
		os.MkdirAll(dir, 0o755)
		b, _ := json.MarshalIndent(map[string]interface{}{"seed": o.Seed, "tier": o.Tier, "violation": v}, "", " ")
		ioutil.WriteFile(filepath.Join(dir, "violation.json"), b, 0o644)
		lines = append(lines, fmt.Sprintf("VIOLATION property=%s replay=%s", o.Prop, dir))
		fmt.Fprintf(os.Stderr, "violation %s [%s] case=%s type=%s input=%s: %s\n", o.Prop, v.Fingerprint, v.Case, v.Type, v.Input, v.Message)
	}
	writeEvidence(o, wall, len(real), ids)
	for _, l := range lines {
		fmt.Println(l)
	}
	if len(real) > 0 {
		return 1
	}
	if len(o.Inconclusive) > 0 {
		for _, s := range o.Inconclusive {
			fmt.Printf("INCONCLUSIVE property=%s %s\n", o.Prop, firstLine(s))
		}
		return 2
	}
	if len(o.distinct) < 2 || o.Evaluations < 1 {
		fmt.Printf("INCONCLUSIVE property=%s too few events (evaluations=%d distinct=%d)\n", o.Prop, o.Evaluations, len(o.distinct))
		return 2
	}
	fmt.Printf("HELD property=%s tier=%s seed=%d evaluations=%d distinct=%d wall=%.1fs\n", o.Prop, o.Tier, o.Seed, o.Evaluations, len(o.distinct), wall.Seconds())
	return 0
}

func firstLine(s string) string {
	if i := strings.Index(s, "\n"); i >= 0 {
		rest := strings.TrimSpace(s[i+1:])
		if len(rest) > 300 {
			rest = rest[:300]
		}
		return s[:i] + " | " + strings.ReplaceAll(rest, "\n", " | ")
	}
	return s
}

func writeEvidence(o *Outcome, wall time.Duration, nviol int, knownIDs []string) {
	cov := map[string]interface{}{
		"evaluations":         o.Evaluations,
		"distinct_nontrivial": len(o.distinct),
		"rule":                o.Rule,
		"samples":             o.Samples,
		"counters":            o.Counters,
		"cases":               o.Cases,
		"notes":               o.Notes,
		"known_findings_seen": knownIDs,
		"inconclusive":        o.Inconclusive,
		"violation_counts":    o.ViolCount,
	}
	ex := map[string]string{}
	for _, v := range o.Violations {
		if _, ok := ex[v.Fingerprint]; !ok {
			m := v.Case + "/" + v.Type + " " + v.Input + ": " + v.Message
			if len(m) > 400 {
				m = m[:400]
			}
			ex[v.Fingerprint] = m
		}
	}
	cov["violation_examples"] = ex
	if len(o.Samples) == 0 {
		cov["samples"] = []interface{}{"(no sample recorded)"}
	}
	ev := map[string]interface{}{
		"property_id": o.Prop,
		"tier":        o.Tier,
		"seed":        o.Seed,
		"level":       o.Level,
		"coverage":    cov,
		"assumptions": append(append([]string(nil), trustedBase...), o.Assumptions...),
		"wall_s":      wall.Seconds(),
		"violations":  nviol,
	}
	b, _ := json.MarshalIndent(ev, "", " ")
	os.MkdirAll(filepath.Join(pipeline.VerifDir, "evidence"), 0o755)
	ioutil.WriteFile(filepath.Join(pipeline.VerifDir, "evidence", o.Prop+".json"), b, 0o644)
}

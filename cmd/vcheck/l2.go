package main

import (
	"encoding/json"
	"fmt"
	"io/ioutil"
	"os"
	"path/filepath"
	"sort"
	"strings"
	"time"

	"verif/internal/checkers"
	"verif/internal/descgen"
	"verif/internal/pipeline"
	"verif/rt"
)

// caseFrom wraps a corpus entry into a pipeline case.
func caseFrom(e *descgen.Entry) *pipeline.Case {
	return &pipeline.Case{Name: e.Name, File: e.File, Cfg: e.Cfg, Tags: e.Tags, Delivery: descgen.Delivery{Extra: e.ExtraParams, RawYAML: e.RawYAML}}
}

// generate prepares and pushes all cases through both plugins (16 in parallel).
func (r *Run) generate(cases []*pipeline.Case) {
	if only := os.Getenv("VERIF_ONLY"); only != "" {
		// debugging aid: restrict the run to the named cases (others are marked as not written)
		keep := map[string]bool{}
		for _, n := range strings.Split(only, ",") {
			keep[n] = true
		}
		for _, c := range cases {
			if !keep[c.Name] {
				c.NoWrite = true
			}
		}
	}
	for _, c := range cases {
		r.WS.Prepare(c)
	}
	pipeline.Parallel(len(cases), func(i int) { r.WS.Generate(cases[i]) })
}

// compile builds all case packages; failures are recorded per case.
func (r *Run) compile(cases []*pipeline.Case) {
	if err := r.WS.InitModule(); err != nil {
		r.Inconclusive = append(r.Inconclusive, "init module: "+err.Error())
		return
	}
	fails, err := r.WS.BuildPackages("./cases/...")
	if err != nil {
		r.Inconclusive = append(r.Inconclusive, err.Error())
		return
	}
	for _, c := range cases {
		if c.GenErr != "" || c.NoWrite {
			continue
		}
		for pkg, out := range fails {
			if pkg == c.TFImport || pkg == c.StructImport || strings.HasPrefix(pkg, "vw/cases/"+c.Name+"/") {
				c.BuildErr += out
			}
		}
	}
}

// usable reports whether a case can be linked into a driver; otherwise the
// failure is recorded as a violation of the running property (the claimed
// behaviour does not exist for that descriptor) or as a harness problem.
func (r *Run) usable(c *pipeline.Case) bool {
	if c.GenErr != "" {
		if strings.HasPrefix(c.GenErr, "HARNESS") {
			r.Inconclusive = append(r.Inconclusive, c.Name+": "+c.GenErr)
		} else {
			r.violate("case-unavailable/generation", c.Name, "", "-", "plugin did not produce a file for a supported descriptor: "+c.GenErr,
				map[string]interface{}{"tags": c.Tags, "stderr": tail(string(c.Plugin.Stderr), 12)})
		}
		return false
	}
	if c.BuildErr != "" {
		r.violate("case-unavailable/compile/"+checkers.BuildErrClass(c.BuildErr), c.Name, "", "-", "generated code does not compile: "+firstLine(c.BuildErr),
			map[string]interface{}{"tags": c.Tags, "compiler": tail(c.BuildErr, 12)})
		return false
	}
	if c.ExpectTFPkg != "" && c.TFPackage != "" && c.TFPackage != c.ExpectTFPkg {
		r.violate("case-unavailable/package-clause", c.Name, "", "-", fmt.Sprintf("the generated file says package %q, the configuration places it in package %q", c.TFPackage, c.ExpectTFPkg),
			map[string]interface{}{"tags": c.Tags})
		return false
	}
	if c.Spec != nil {
		have := map[string]bool{}
		for _, t := range c.GeneratedTypes() {
			have[t] = true
		}
		for _, root := range c.Spec.Roots {
			if !have[root.Name] {
				r.violate("case-unavailable/type-not-generated", c.Name, root.Name, "-", "the generated file has no functions for the selected type "+root.Name+" of a supported descriptor",
					map[string]interface{}{"tags": c.Tags, "stderr": tail(string(c.Plugin.Stderr), 12)})
				return false
			}
		}
	}
	return true
}

func tail(s string, n int) string {
	l := strings.Split(strings.TrimSpace(s), "\n")
	if len(l) > n {
		l = l[:n]
	}
	return strings.Join(l, "\n")
}

// link writes the specs of the usable cases and links them into one driver binary.
func (r *Run) link(cases []*pipeline.Case) (bin, specDir string, ok []*pipeline.Case) {
	for _, c := range cases {
		if c.NoWrite {
			continue
		}
		if r.usable(c) {
			ok = append(ok, c)
		}
	}
	if len(ok) == 0 {
		r.Inconclusive = append(r.Inconclusive, "no usable case")
		return "", "", nil
	}
	specDir = filepath.Join(r.WS.Dir, "specs")
	os.MkdirAll(specDir, 0o755)
	var imports []string
	for _, c := range ok {
		b, _ := json.Marshal(c.Spec)
		ioutil.WriteFile(filepath.Join(specDir, c.Name+".json"), b, 0o644)
		imports = append(imports, c.TFImport)
		r.Cases = append(r.Cases, c.Name)
	}
	bin, err := r.WS.BuildDriver("driver", imports, false)
	if err != nil {
		r.Inconclusive = append(r.Inconclusive, err.Error())
		return "", "", nil
	}
	return bin, specDir, ok
}

// runBatches runs one driver process per batch and merges the results.
func (r *Run) runBatches(bin, prop string, nb int, args func(i int) []string) {
	results := make([]*rt.Result, nb)
	errs := make([]string, nb)
	pipeline.Parallel(nb, func(i int) {
		outp := filepath.Join(r.WS.Dir, "out", fmt.Sprintf("%s-%d.json", prop, i))
		logp := filepath.Join(r.WS.Dir, "out", fmt.Sprintf("%s-%d.log", prop, i))
		a := append([]string{"-prop", prop, "-seed", fmt.Sprint(r.Seed), "-tier", r.Tier, "-out", outp}, args(i)...)
		exit, timedOut, err := pipeline.RunDriver(bin, a, logp, 40*time.Minute)
		if err != nil || timedOut || exit != 0 {
			lb, _ := ioutil.ReadFile(logp)
			errs[i] = fmt.Sprintf("driver batch %d: exit=%d timeout=%v err=%v\n%s", i, exit, timedOut, err, tail(string(lb), 30))
			return
		}
		b, err := ioutil.ReadFile(outp)
		if err != nil {
			errs[i] = err.Error()
			return
		}
		res := &rt.Result{}
		if err := json.Unmarshal(b, res); err != nil {
			errs[i] = err.Error()
			return
		}
		results[i] = res
	})
	for i := range results {
		if errs[i] != "" {
			r.Inconclusive = append(r.Inconclusive, errs[i])
			continue
		}
		r.merge(results[i])
	}
}

// drive links the usable cases into one driver and runs the monitor of prop on
// them in batches (one child process per batch).
func (r *Run) drive(prop string, cases []*pipeline.Case, n int) {
	bin, specDir, ok := r.link(cases)
	if bin == "" {
		return
	}
	nb := 16
	if len(ok) < nb {
		nb = len(ok)
	}
	batches := make([][]string, nb)
	for i, c := range ok {
		batches[i%nb] = append(batches[i%nb], c.Name)
	}
	r.runBatches(bin, prop, nb, func(i int) []string {
		a := []string{"-specs", specDir, "-cases", strings.Join(batches[i], ",")}
		if n > 0 {
			a = append(a, "-n", fmt.Sprint(n))
		}
		return a
	})
}

// drivePairs links the cases and runs the differential monitor on the pairs.
func (r *Run) drivePairs(prop string, cases []*pipeline.Case, pairs []rt.Pair) {
	bin, specDir, ok := r.link(cases)
	if bin == "" {
		return
	}
	have := map[string]bool{}
	for _, c := range ok {
		have[c.Name] = true
	}
	var usable []rt.Pair
	for _, p := range pairs {
		if have[p.A] && have[p.B] {
			usable = append(usable, p)
		}
	}
	if len(usable) == 0 {
		r.Inconclusive = append(r.Inconclusive, "no usable pair")
		return
	}
	nb := 16
	if len(usable) < nb {
		nb = len(usable)
	}
	files := make([]string, nb)
	for i := 0; i < nb; i++ {
		var part []rt.Pair
		for k := i; k < len(usable); k += nb {
			part = append(part, usable[k])
		}
		b, _ := json.Marshal(part)
		files[i] = filepath.Join(r.WS.Dir, "out", fmt.Sprintf("pairs-%d.json", i))
		ioutil.WriteFile(files[i], b, 0o644)
	}
	r.runBatches(bin, prop, nb, func(i int) []string { return []string{"-specs", specDir, "-pairs", files[i]} })
}

func (r *Run) merge(res *rt.Result) {
	r.Evaluations += res.Evaluations
	for _, d := range res.DistinctSet {
		r.distinctAdd(d)
	}
	for k, v := range res.Counters {
		r.Counters[k] += v
	}
	for _, s := range res.Samples {
		r.sample(s)
	}
	for _, h := range res.Harness {
		r.Inconclusive = append(r.Inconclusive, "driver: "+h)
	}
	for fp, n := range res.ViolCount {
		r.ViolCount[fp] += n
	}
	r.Violations = append(r.Violations, res.Violations...)
}

// sortedCounters renders counters for notes.
func sortedCounters(m map[string]int) []string {
	var ks []string
	for k := range m {
		ks = append(ks, k)
	}
	sort.Strings(ks)
	var out []string
	for _, k := range ks {
		out = append(out, fmt.Sprintf("%s=%d", k, m[k]))
	}
	return out
}

package main

import (
	"verif/internal/descgen"
	"verif/internal/pipeline"
)

// randomCases returns n seeded random cases (see internal/descgen/random.go).
func randomCases(r *Run, n int) []*pipeline.Case {
	var out []*pipeline.Case
	for i := 0; i < n; i++ {
		out = append(out, caseFrom(descgen.Random(r.Seed, i, descgen.RandOpt{})))
	}
	return out
}

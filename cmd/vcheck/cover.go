package main

import (
	"fmt"
	"os"
	"path/filepath"
	"regexp"
	"sort"
	"strconv"
	"strings"

	"verif/internal/pipeline"
)

var covLine = regexp.MustCompile(`^(\S+):\d+:\s+(\S+)\s+([0-9.]+)%$`)

// pluginCoverage reruns the requests through a `go build -cover` plugin and
// records, as evidence of reach (never as an oracle), the statement coverage of
// every generator function.
func (r *Run) pluginCoverage(cases []*pipeline.Case) {
	if _, err := r.WS.BuildPlugin("cover"); err != nil {
		r.Notes = append(r.Notes, "coverage build failed: "+firstLine(err.Error()))
		return
	}
	dir := filepath.Join(r.WS.Dir, "cov")
	os.MkdirAll(dir, 0o755)
	var cc []*pipeline.Case
	for _, c := range cases {
		d := *c
		d.PluginVariant, d.NoWrite = "cover", true
		d.PluginEnv = []string{"GOCOVERDIR=" + dir}
		d.GenErr, d.BuildErr = "", ""
		cc = append(cc, &d)
	}
	pipeline.Parallel(len(cc), func(i int) { r.WS.Generate(cc[i]) })
	out, err := r.WS.Go(pipeline.RepoDir, nil, "tool", "covdata", "func", "-i="+dir)
	if err != nil {
		r.Notes = append(r.Notes, "covdata failed: "+firstLine(string(out)))
		return
	}
	var zero []string
	total := ""
	n := 0
	for _, l := range strings.Split(string(out), "\n") {
		l = strings.TrimSpace(l)
		if strings.HasPrefix(l, "total") {
			f := strings.Fields(l)
			total = f[len(f)-1]
			continue
		}
		m := covLine.FindStringSubmatch(l)
		if m == nil || !strings.Contains(m[1], "protoc-gen-terraform") {
			continue
		}
		n++
		if p, _ := strconv.ParseFloat(m[3], 64); p == 0 {
			zero = append(zero, filepath.Base(m[1])+":"+m[2])
		}
	}
	sort.Strings(zero)
	r.Notes = append(r.Notes, fmt.Sprintf("generator statement coverage over %d requests (evidence of reach, not an oracle): total %s, %d functions, never entered: %v", len(cc), total, n, zero))
}

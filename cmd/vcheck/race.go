package main

import (
	"io/ioutil"
	"path/filepath"
	"strings"
)

// countRaceReports counts WARNING: DATA RACE blocks in race-* log files.
func countRaceReports(dir string) int {
	files, _ := filepath.Glob(filepath.Join(dir, "race-*"))
	n := 0
	for _, f := range files {
		b, _ := ioutil.ReadFile(f)
		n += strings.Count(string(b), "WARNING: DATA RACE")
	}
	return n
}

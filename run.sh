#!/bin/bash
# Entry point registered in MANIFEST.json: ./run.sh <Cxx> <quick|thorough> [--replay path]
cd "$(dirname "$0")"
export VERIF_DIR="$PWD"
export GOFLAGS=-mod=mod GOPROXY=off GOSUMDB=off GOTOOLCHAIN=local
if [ ! -x bin/vcheck ] || [ -n "$(find cmd internal rt -newer bin/vcheck -name '*.go' -print -quit 2>/dev/null)" ]; then
  mkdir -p bin
  go build -o bin/vcheck ./cmd/vcheck || { echo "INCONCLUSIVE property=$1 harness build failed"; exit 2; }
fi
exec bin/vcheck "$@"

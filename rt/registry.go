// Package rt is the run-time monitor library linked into every driver binary
// together with the generated packages under test.
package rt

import (
	"context"
	"encoding/json"
	"flag"
	"fmt"
	"io/ioutil"
	"os"
	"path/filepath"
	"reflect"
	"sort"
	"strings"

	"github.com/hashicorp/terraform-plugin-framework/diag"
	"github.com/hashicorp/terraform-plugin-framework/tfsdk"
	"github.com/hashicorp/terraform-plugin-framework/types"

	"verif/rt/spec"
)

// TypeReg holds the three generated functions of one selected type.
type TypeReg struct {
	New       func() interface{}
	GenSchema func(context.Context) (tfsdk.Schema, diag.Diagnostics)
	CopyFrom  func(context.Context, types.Object, interface{}) diag.Diagnostics
	CopyTo    func(context.Context, interface{}, *types.Object) diag.Diagnostics
}

// CaseReg is what a generated package registers.
type CaseReg struct {
	Name     string
	Types    map[string]*TypeReg
	Wrappers map[string]reflect.Type
	Structs  map[string]reflect.Type
}

var registry = map[string]*CaseReg{}

// Register is called from the init functions of the case packages.
func Register(c *CaseReg) { registry[c.Name] = c }

// Monitor runs one property's workload and oracles on one root type.
type Monitor func(x *Ctx)

var monitors = map[string]Monitor{}

// Options are the driver's command-line options.
type Options struct {
	Prop  string
	Specs string
	Cases string
	Seed  int64
	Tier  string
	Out   string
	N     int // per-type input budget (0 = tier default)
	Pairs string
}

// Main is the entry point of every driver binary.
func Main() {
	var o Options
	flag.StringVar(&o.Prop, "prop", "", "property id")
	flag.StringVar(&o.Specs, "specs", "", "directory with <case>.json specs")
	flag.StringVar(&o.Cases, "cases", "", "comma separated case names")
	flag.Int64Var(&o.Seed, "seed", 1, "seed")
	flag.StringVar(&o.Tier, "tier", "quick", "tier")
	flag.StringVar(&o.Out, "out", "", "result file")
	flag.IntVar(&o.N, "n", 0, "inputs per type")
	flag.StringVar(&o.Pairs, "pairs", "", "pairs file (differential mode)")
	flag.Parse()
	res := &Result{Prop: o.Prop, Counters: map[string]int{}, distinct: map[string]bool{}}
	if o.Pairs != "" {
		runPairs(o, res)
		finishResult(o, res)
		return
	}
	mon, ok := monitors[o.Prop]
	if !ok {
		fmt.Fprintln(os.Stderr, "unknown property", o.Prop)
		os.Exit(3)
	}
	names := strings.Split(o.Cases, ",")
	sort.Strings(names)
	for _, name := range names {
		if name == "" {
			continue
		}
		reg, ok := registry[name]
		if !ok {
			res.Harness = append(res.Harness, "case not linked: "+name)
			continue
		}
		b, err := ioutil.ReadFile(filepath.Join(o.Specs, name+".json"))
		if err != nil {
			res.Harness = append(res.Harness, err.Error())
			continue
		}
		cs := &spec.Case{}
		if err := json.Unmarshal(b, cs); err != nil {
			res.Harness = append(res.Harness, err.Error())
			continue
		}
		for _, root := range cs.Roots {
			tr := reg.Types[root.Name]
			if tr == nil {
				res.Harness = append(res.Harness, fmt.Sprintf("%s: type %s not registered", name, root.Name))
				continue
			}
			x := &Ctx{Opt: o, Case: cs, Reg: reg, Root: root, T: tr, Res: res, prf: PRF{Seed: uint64(o.Seed), Case: cs.Name + "/" + root.Name}}
			if err := x.selfCheck(); err != nil {
				res.Harness = append(res.Harness, fmt.Sprintf("%s/%s: %v", name, root.Name, err))
				continue
			}
			countShapes(res, root)
			func() {
				defer func() {
					if r := recover(); r != nil {
						res.Harness = append(res.Harness, fmt.Sprintf("%s/%s: monitor panicked: %v\n%s", name, root.Name, r, stack()))
					}
				}()
				mon(x)
			}()
		}
	}
	finishResult(o, res)
}

func finishResult(o Options, res *Result) {
	res.Distinct = len(res.distinct)
	for d := range res.distinct {
		res.DistinctSet = append(res.DistinctSet, fmt.Sprintf("%016x", hashStr(14695981039346656037, d)))
	}
	sort.Strings(res.DistinctSet)
	b, _ := json.Marshal(res)
	if o.Out == "" {
		os.Stdout.Write(b)
	} else if err := ioutil.WriteFile(o.Out, b, 0o644); err != nil {
		fmt.Fprintln(os.Stderr, err)
		os.Exit(3)
	}
}

// countShapes records, as evidence of reach, how many field occurrences of every
// shape class the monitored types contain.
func countShapes(res *Result, ms *spec.Msg) {
	for _, a := range ms.Live() {
		res.Counters["shape:"+a.Class]++
		if a.Msg != nil {
			countShapes(res, a.Msg)
		}
	}
}

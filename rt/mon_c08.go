package rt

import (
	"fmt"
	"reflect"
	"sort"

	"github.com/hashicorp/terraform-plugin-framework/attr"
	"github.com/hashicorp/terraform-plugin-framework/types"

	"verif/rt/spec"
)

func init() { monitors["C08"] = monC08 }

// findUnknown reports unknown values below the attributes that stem from fields.
func findUnknown(ms *spec.Msg, obj types.Object, path string, out *[]problem) {
	var walkElem func(a *spec.Attr, e attr.Value, p string)
	walkElem = func(a *spec.Attr, e attr.Value, p string) {
		if e == nil {
			return
		}
		if e.IsUnknown() {
			*out = append(*out, problem{fp: "unknown-left/" + a.Class + " (element)", path: p, msg: "unknown element after echo"})
			return
		}
		if eo, ok := e.(types.Object); ok && a.Msg != nil && !eo.Null {
			findUnknown(a.Msg, eo, p, out)
		}
	}
	for _, a := range ms.Live() {
		av, ok := obj.Attrs[a.Attr]
		if !ok || av == nil {
			continue
		}
		p := path + "." + a.Attr
		if av.IsUnknown() {
			*out = append(*out, problem{fp: "unknown-left/" + a.Class, path: p, msg: "unknown value after echo"})
			continue
		}
		if av.IsNull() {
			continue
		}
		switch t := av.(type) {
		case types.Object:
			if a.Msg != nil {
				findUnknown(a.Msg, t, p, out)
			}
		case types.List:
			for i, e := range t.Elems {
				walkElem(a, e, fmt.Sprintf("%s[%d]", p, i))
			}
		case types.Map:
			for k, e := range t.Elems {
				walkElem(a, e, fmt.Sprintf("%s{%s}", p, k))
			}
		}
	}
	if ms.Placeholder {
		if av, ok := obj.Attrs["active"]; ok && av != nil && av.IsUnknown() {
			*out = append(*out, problem{fp: "unknown-left/placeholder", path: path + ".active", msg: "placeholder unknown after echo"})
		}
	}
}

func keysOf(m map[string]attr.Value) []string {
	var k []string
	for s := range m {
		k = append(k, s)
	}
	sort.Strings(k)
	return k
}

// echoWalk compares plan and result for every known attribute outside list/map elements.
func echoWalk(ms *spec.Msg, plan, res types.Object, path string, out *[]problem, judged *int) {
	for _, a := range ms.Live() {
		if a.Kind == spec.KCustom {
			continue
		}
		pv, ok := plan.Attrs[a.Attr]
		if !ok || pv == nil || pv.IsUnknown() {
			continue
		}
		p := path + "." + a.Attr
		rv, ok := res.Attrs[a.Attr]
		if !ok || rv == nil {
			*out = append(*out, problem{fp: "attr-lost/" + a.Class, path: p, msg: "attribute missing after echo"})
			continue
		}
		*judged++
		st := "known-null"
		if !pv.IsNull() {
			st = "known-value"
		}
		if pv.IsNull() != rv.IsNull() {
			*out = append(*out, problem{fp: fmt.Sprintf("nullness-changed/%s/%s", a.Class, st), path: p,
				msg: fmt.Sprintf("planned null=%v, returned null=%v (%s)", pv.IsNull(), rv.IsNull(), short(dumpTF(rv)))})
			continue
		}
		if pv.IsNull() {
			continue
		}
		switch a.Kind {
		case spec.KScalar:
			if !reflect.DeepEqual(dumpTF(pv), dumpTF(rv)) {
				*out = append(*out, problem{fp: "value-changed/" + a.Class, path: p, msg: fmt.Sprintf("planned %v, returned %v", dumpTF(pv), dumpTF(rv))})
			}
		case spec.KList, spec.KObjList:
			pl, _ := pv.(types.List)
			rl, ok := rv.(types.List)
			if !ok || len(pl.Elems) != len(rl.Elems) {
				*out = append(*out, problem{fp: "length-changed/" + a.Class, path: p, msg: fmt.Sprintf("planned %d elements, returned %d", len(pl.Elems), len(rl.Elems))})
			}
		case spec.KMap, spec.KObjMap:
			pm, _ := pv.(types.Map)
			rm, ok := rv.(types.Map)
			if !ok || !reflect.DeepEqual(keysOf(pm.Elems), keysOf(rm.Elems)) {
				*out = append(*out, problem{fp: "keys-changed/" + a.Class, path: p, msg: fmt.Sprintf("planned keys %q, returned %q", keysOf(pm.Elems), keysOf(rm.Elems))})
			}
		case spec.KObject:
			po, _ := pv.(types.Object)
			ro, ok := rv.(types.Object)
			if ok {
				echoWalk(a.Msg, po, ro, p, out, judged)
			}
		}
	}
}

func monC08(x *Ctx) {
	s, ok := x.schemaOrViolate()
	if !ok {
		return
	}
	n := x.Budget(120, 1200)
	for i := 0; i < n; i++ {
		in := fmt.Sprintf("p%d", i)
		_, plan, err := x.Plan(s, in, i%numPlanModes)
		if err != nil {
			x.Res.Harness = append(x.Res.Harness, err.Error())
			return
		}
		x.Eval(1)
		x.Distinct(sigOf(dumpShape(plan)))
		if i == 1 {
			x.Sample(map[string]interface{}{"case": x.Case.Name, "type": x.Root.Name, "input": in, "plan": dumpTF(plan)})
		}
		q1 := x.T.New()
		out := x.CopyFrom(plan, q1)
		if out.Panic != nil {
			x.Violate(panicFP("CopyFrom", out)+"/"+x.embedTypeClass(), in, "CopyFrom panicked on a plan", map[string]interface{}{"panic": panicDetail(out), "plan": dumpTF(plan)})
			continue
		}
		if e := out.errs(); len(e) > 0 {
			x.Violate("error-diag/CopyFrom", in, "CopyFrom returned error diagnostics on a plan", map[string]interface{}{"diags": e})
			continue
		}
		obj := deepCopyTF(plan).(types.Object)
		out = x.CopyTo(q1, &obj)
		if out.Panic != nil {
			x.Violate(panicFP("CopyTo", out)+"/"+x.nilEmbedClass(q1), in, "CopyTo panicked copying back into the plan", map[string]interface{}{"panic": panicDetail(out), "plan": dumpTF(plan)})
			continue
		}
		if e := out.errs(); len(e) > 0 {
			x.Violate("error-diag/CopyTo", in, "CopyTo returned error diagnostics copying back into the plan", map[string]interface{}{"diags": e})
			continue
		}
		var probs []problem
		judged := 0
		findUnknown(x.Root, obj, x.Root.Name, &probs)
		echoWalk(x.Root, plan, obj, x.Root.Name, &probs, &judged)
		x.Count("known-attributes-judged", judged)
		for _, pr := range probs {
			x.Violate("echo/"+pr.fp, in, pr.path+": "+pr.msg, map[string]interface{}{"plan": dumpTF(plan), "result": dumpTF(obj), "struct": x.DumpStruct(q1, dumpOpt{})})
		}
		q2 := x.T.New()
		out = x.CopyFrom(obj, q2)
		if out.Panic != nil || len(out.errs()) > 0 {
			x.Violate("redecode-failed", in, fmt.Sprintf("decoding the echoed object failed: %v %v", out.Panic, out.errs()), nil)
			continue
		}
		a, b := x.DumpStruct(q1, dumpOpt{NF: true}), x.DumpStruct(q2, dumpOpt{NF: true})
		if !reflect.DeepEqual(a, b) {
			seen := map[string]bool{}
			for _, d := range DiffPaths(a, b) {
				cls := classAt(x.Root, d)
				if seen[cls] {
					continue
				}
				seen[cls] = true
				x.Violate("redecode-diff/"+cls, in, "decoding the echoed object differs at "+d, map[string]interface{}{"first": a, "second": b, "plan": dumpTF(plan), "result": dumpTF(obj)})
			}
		}
	}
}

package rt

import (
	"context"
	"fmt"
	"math"
	"math/big"
	"reflect"
	"sort"
	"strings"
	"time"

	"github.com/hashicorp/terraform-plugin-framework/attr"
	"github.com/hashicorp/terraform-plugin-framework/tfsdk"
	"github.com/hashicorp/terraform-plugin-framework/types"
	"github.com/hashicorp/terraform-plugin-go/tftypes"

	"verif/rt/spec"
	"verif/rt/tfx"
)

// planGen builds conforming Terraform objects: first a fully known value of the
// schema's Terraform type (with at most one active branch per oneof group),
// decoded by the schema's own attribute type exactly as req.Plan.Get does; then
// a null/unknown mask applied on the attr.Value tree.
type planGen struct {
	x    *Ctx
	in   string
	mode int
	sig  strings.Builder
}

// Plan modes.
const (
	pMixed = iota
	pMostlyKnown
	pMostlyAbsent
	pZeroHeavy // known zero values
	numPlanModes
)

func (g *planGen) pick(n int, path, what string) int { return g.x.prf.Int(n, g.in, path, what) }

func rootStructType(x *Ctx) reflect.Type { return reflect.TypeOf(x.T.New()).Elem() }

func elemStructType(ft reflect.Type) reflect.Type {
	for ft.Kind() == reflect.Ptr || ft.Kind() == reflect.Slice || ft.Kind() == reflect.Map {
		ft = ft.Elem()
	}
	return ft
}

// knownMsg builds the fully known tftypes value of one message occurrence.
func (g *planGen) knownMsg(ms *spec.Msg, ot types.ObjectType, mt reflect.Type, path string, depth int) tftypes.Value {
	ctx := context.Background()
	vals := map[string]tftypes.Value{}
	// oneof groups: choose the active branch (or none)
	active := map[string]string{}
	groups := map[string][]*spec.Attr{}
	// all declared branches take part in the choice (also excluded ones), so that
	// variants of a case that exclude a branch draw the same logical input
	for _, a := range ms.Attrs {
		if a.Oneof != nil {
			groups[a.Oneof.Group] = append(groups[a.Oneof.Group], a)
		}
	}
	gnames := make([]string, 0, len(groups))
	for k := range groups {
		gnames = append(gnames, k)
	}
	sort.Strings(gnames)
	for _, gn := range gnames {
		br := groups[gn]
		// the choice must not depend on the declaration order
		sort.Slice(br, func(i, j int) bool { return br[i].Proto < br[j].Proto })
		i := g.pick(len(br)+1, path+"/oneof:"+gn, "active")
		if i < len(br) {
			active[gn] = br[i].Proto
		}
	}
	done := map[string]bool{}
	for _, a := range ms.Live() {
		t, ok := ot.AttrTypes[a.Attr]
		if !ok {
			continue // schema lacks it: C02's business
		}
		done[a.Attr] = true
		tt := t.TerraformType(ctx)
		p := path + "/" + akey(a)
		if a.Oneof != nil && active[a.Oneof.Group] != a.Proto {
			vals[a.Attr] = tftypes.NewValue(tt, nil)
			continue
		}
		ft := g.x.fieldType(mt, a)
		vals[a.Attr] = g.knownAttr(a, t, ft, p, depth)
	}
	// attributes that do not stem from a field (injected, placeholder): null
	for name, t := range ot.AttrTypes {
		if !done[name] {
			vals[name] = tftypes.NewValue(t.TerraformType(ctx), nil)
		}
	}
	return tftypes.NewValue(ot.TerraformType(ctx), vals)
}

func (g *planGen) collLen(path string, depth int) int {
	max := 4
	if depth >= 2 {
		max = 3
	}
	if depth == 0 && g.pick(40, path, "long") == 0 {
		return 9 + g.pick(24, path, "longlen")
	}
	return g.pick(max, path, "len")
}

func (g *planGen) knownAttr(a *spec.Attr, t attr.Type, ft reflect.Type, p string, depth int) tftypes.Value {
	ctx := context.Background()
	tt := t.TerraformType(ctx)
	switch a.Kind {
	case spec.KScalar:
		return g.knownLeaf(a, tt, ft, p)
	case spec.KCustom:
		return tftypes.NewValue(tt, "custom-"+fmt.Sprint(g.pick(100, p, "custom")))
	case spec.KList:
		lt, _ := t.(types.ListType)
		n := g.collLen(p, depth)
		elems := make([]tftypes.Value, n)
		for i := range elems {
			elems[i] = g.knownLeaf(a, lt.ElemType.TerraformType(ctx), ft.Elem(), fmt.Sprintf("%s[%d]", p, i))
		}
		return tftypes.NewValue(tt, elems)
	case spec.KMap:
		mt, _ := t.(types.MapType)
		n := g.collLen(p, depth)
		elems := map[string]tftypes.Value{}
		for i := 0; i < n; i++ {
			k := planKey(g, p, i)
			elems[k] = g.knownLeaf(a, mt.ElemType.TerraformType(ctx), ft.Elem(), fmt.Sprintf("%s{%s}", p, k))
		}
		return tftypes.NewValue(tt, elems)
	case spec.KObject:
		ot, _ := t.(types.ObjectType)
		return g.knownMsg(a.Msg, ot, elemStructType(ft), p, depth+1)
	case spec.KObjList:
		lt, _ := t.(types.ListType)
		ot, _ := lt.ElemType.(types.ObjectType)
		n := g.collLen(p, depth)
		elems := make([]tftypes.Value, n)
		for i := range elems {
			elems[i] = g.knownMsg(a.Msg, ot, elemStructType(ft), fmt.Sprintf("%s[%d]", p, i), depth+1)
		}
		return tftypes.NewValue(tt, elems)
	case spec.KObjMap:
		mt, _ := t.(types.MapType)
		ot, _ := mt.ElemType.(types.ObjectType)
		n := g.collLen(p, depth)
		elems := map[string]tftypes.Value{}
		for i := 0; i < n; i++ {
			k := planKey(g, p, i)
			elems[k] = g.knownMsg(a.Msg, ot, elemStructType(ft), fmt.Sprintf("%s{%s}", p, k), depth+1)
		}
		return tftypes.NewValue(tt, elems)
	}
	return tftypes.NewValue(tt, nil)
}

// knownLeaf draws a known value inside the range of the Go field (zero values included).
func (g *planGen) knownLeaf(a *spec.Attr, tt tftypes.Type, ft reflect.Type, p string) tftypes.Value {
	if ft.Kind() == reflect.Ptr {
		ft = ft.Elem()
	}
	// the schema under test may disagree with the model about the leaf type (that is judged by
	// C02 and by the differential dumps): never hand the framework a value of another kind
	want := tftypes.String
	switch a.Leaf {
	case spec.LInt64, spec.LFloat64:
		want = tftypes.Number
	case spec.LBool:
		want = tftypes.Bool
	}
	if !tt.Equal(want) {
		return tftypes.NewValue(tt, nil)
	}
	r := rng{s: g.x.prf.U64(g.in, p, "pleaf")}
	zero := r.intn(6) == 0 || (g.mode == pZeroHeavy && r.intn(2) == 0)
	switch a.Leaf {
	case spec.LBool:
		return tftypes.NewValue(tt, !zero)
	case spec.LString:
		if zero {
			return tftypes.NewValue(tt, "")
		}
		if r.intn(3) == 0 {
			return tftypes.NewValue(tt, strLattice[r.intn(len(strLattice))])
		}
		return tftypes.NewValue(tt, randString(&r))
	case spec.LTime:
		if zero {
			return tftypes.NewValue(tt, time.Time{}.Format(tfx.TimeFormat))
		}
		return tftypes.NewValue(tt, genTime(&r, r.intn(4) == 0).Format(tfx.TimeFormat))
	case spec.LDuration:
		if zero {
			return tftypes.NewValue(tt, time.Duration(0).String())
		}
		d := time.Duration(int64(r.next()))
		if r.intn(2) == 0 {
			d = time.Duration(int64(r.intn(1000000))-500000) * time.Millisecond
		}
		return tftypes.NewValue(tt, d.String())
	case spec.LFloat64:
		if zero {
			return tftypes.NewValue(tt, big.NewFloat(0))
		}
		var f float64
		if ft.Kind() == reflect.Float32 {
			c := []float32{1.5, -2.25, math.MaxFloat32, math.SmallestNonzeroFloat32, 0.1, 16777217}
			if r.intn(2) == 0 {
				f = float64(c[r.intn(len(c))])
			} else {
				for {
					f32 := math.Float32frombits(uint32(r.next()))
					if !math.IsNaN(float64(f32)) && !math.IsInf(float64(f32), 0) {
						f = float64(f32)
						break
					}
				}
			}
		} else {
			c := []float64{1.5, -2.25, math.MaxFloat64, math.SmallestNonzeroFloat64, 0.1, 9007199254740993}
			if r.intn(2) == 0 {
				f = c[r.intn(len(c))]
			} else {
				for {
					f = math.Float64frombits(r.next())
					if !math.IsNaN(f) && !math.IsInf(f, 0) {
						break
					}
				}
			}
		}
		return tftypes.NewValue(tt, big.NewFloat(f))
	case spec.LInt64:
		if zero {
			return tftypes.NewValue(tt, big.NewFloat(0))
		}
		var n int64
		switch ft.Kind() {
		case reflect.Int32:
			c := []int64{1, -1, math.MaxInt32, math.MinInt32, 1000}
			if len(a.EnumNumbers) > 0 {
				c = nil
				for _, e := range a.EnumNumbers {
					c = append(c, int64(e))
				}
				c = append(c, 99, -3)
			}
			if r.intn(2) == 0 {
				n = c[r.intn(len(c))]
			} else {
				n = int64(int32(r.next()))
			}
		case reflect.Uint32:
			c := []int64{1, math.MaxUint32, math.MaxInt32 + 1, 1000}
			if r.intn(2) == 0 {
				n = c[r.intn(len(c))]
			} else {
				n = int64(uint32(r.next()))
			}
		case reflect.Uint64:
			c := []int64{1, math.MaxInt64, math.MaxUint32 + 1, 1000}
			if r.intn(2) == 0 {
				n = c[r.intn(len(c))]
			} else {
				n = int64(r.next() >> 1)
			}
		default:
			c := []int64{1, -1, math.MaxInt64, math.MinInt64, 1 << 53, 1<<53 + 1, -1000}
			if r.intn(2) == 0 {
				n = c[r.intn(len(c))]
			} else {
				n = int64(r.next())
			}
		}
		return tftypes.NewValue(tt, new(big.Float).SetPrec(64).SetInt64(n))
	}
	return tftypes.NewValue(tt, nil)
}

// KnownPlan returns a fully known conforming object for the root type.
func (x *Ctx) KnownPlan(s tfsdk.Schema, in string, mode int) (types.Object, error) {
	g := &planGen{x: x, in: in, mode: mode}
	ot := s.AttributeType().(types.ObjectType)
	v := g.knownMsg(x.Root, ot, rootStructType(x), "", 0)
	av, err := ot.ValueFromTerraform(context.Background(), v)
	if err != nil {
		return types.Object{}, fmt.Errorf("HARNESS: decoding generated plan: %v", err)
	}
	return av.(types.Object), nil
}

// maskOpt controls the null/unknown mask.
type maskOpt struct {
	pNull, pUnknown int // percent per node
	elemUnknown     bool
	elemNull        bool // also null list / map elements (C05; plans of C08 never have them)
	// keepInjected: leave attributes that do not stem from fields alone.
}

func maskFor(mode int) maskOpt {
	switch mode {
	case pMostlyKnown:
		return maskOpt{pNull: 6, pUnknown: 6, elemUnknown: true}
	case pMostlyAbsent:
		return maskOpt{pNull: 40, pUnknown: 35}
	case pZeroHeavy:
		return maskOpt{pNull: 10, pUnknown: 10}
	}
	return maskOpt{pNull: 18, pUnknown: 18, elemUnknown: true}
}

// setFlags returns v with the Null/Unknown flag set, payload kept.
func setFlags(v attr.Value, null, unknown bool) attr.Value {
	switch t := v.(type) {
	case types.Object:
		t.Null, t.Unknown = null, unknown
		return t
	case types.List:
		t.Null, t.Unknown = null, unknown
		return t
	case types.Map:
		t.Null, t.Unknown = null, unknown
		return t
	case types.String:
		t.Null, t.Unknown = null, unknown
		return t
	case types.Int64:
		t.Null, t.Unknown = null, unknown
		return t
	case types.Float64:
		t.Null, t.Unknown = null, unknown
		return t
	case types.Bool:
		t.Null, t.Unknown = null, unknown
		return t
	case tfx.AltString:
		t.Null, t.Unknown = null, unknown
		return t
	case tfx.AltInt64:
		t.Null, t.Unknown = null, unknown
		return t
	case tfx.AltBool:
		t.Null, t.Unknown = null, unknown
		return t
	case tfx.TimeValue:
		t.Null, t.Unknown = null, unknown
		return t
	case tfx.DurationValue:
		t.Null, t.Unknown = null, unknown
		return t
	}
	return v
}

// mask applies a pseudo-random null/unknown mask to a fully known object,
// keeping the payload under the flags. Elements of lists and maps are never
// made null (unknown only when allowed).
func (x *Ctx) mask(ms *spec.Msg, obj types.Object, in, path string, o maskOpt) types.Object {
	out := obj
	out.Attrs = make(map[string]attr.Value, len(obj.Attrs))
	for k, v := range obj.Attrs {
		out.Attrs[k] = v
	}
	known := map[string]bool{}
	for _, a := range ms.Live() {
		known[a.Attr] = true
		v, ok := out.Attrs[a.Attr]
		if !ok {
			continue
		}
		p := path + "/" + akey(a)
		r := x.prf.Int(100, in, p, "mask")
		switch {
		case v.IsNull():
			// already null (inactive oneof branch): leave; plans keep at most one branch not null
		case r < o.pNull:
			out.Attrs[a.Attr] = setFlags(v, true, false)
			continue
		case r < o.pNull+o.pUnknown:
			out.Attrs[a.Attr] = setFlags(v, false, true)
			continue
		}
		if a.Msg == nil {
			if o.elemUnknown {
				out.Attrs[a.Attr] = x.maskElems(out.Attrs[a.Attr], in, p, o.elemNull)
			}
			continue
		}
		switch t := out.Attrs[a.Attr].(type) {
		case types.Object:
			if !t.Null && !t.Unknown {
				out.Attrs[a.Attr] = x.mask(a.Msg, t, in, p, o)
			}
		case types.List:
			if !t.Null && !t.Unknown {
				el := make([]attr.Value, len(t.Elems))
				for i, e := range t.Elems {
					ep := fmt.Sprintf("%s[%d]", p, i)
					eo := e.(types.Object)
					if o.elemUnknown && x.prf.Int(100, in, ep, "elem-unknown") < 4 {
						el[i] = setFlags(eo, false, true)
					} else if o.elemNull && x.prf.Int(100, in, ep, "elem-null") < 8 {
						el[i] = setFlags(eo, true, false)
					} else {
						el[i] = x.mask(a.Msg, eo, in, ep, o)
					}
				}
				t.Elems = el
				out.Attrs[a.Attr] = t
			}
		case types.Map:
			if !t.Null && !t.Unknown {
				el := make(map[string]attr.Value, len(t.Elems))
				for k, e := range t.Elems {
					ep := fmt.Sprintf("%s{%s}", p, k)
					eo := e.(types.Object)
					if o.elemUnknown && x.prf.Int(100, in, ep, "elem-unknown") < 4 {
						el[k] = setFlags(eo, false, true)
					} else if o.elemNull && x.prf.Int(100, in, ep, "elem-null") < 8 {
						el[k] = setFlags(eo, true, false)
					} else {
						el[k] = x.mask(a.Msg, eo, in, ep, o)
					}
				}
				t.Elems = el
				out.Attrs[a.Attr] = t
			}
		}
	}
	// attributes that do not stem from a field: null or unknown (computed)
	for name, v := range out.Attrs {
		if !known[name] && x.prf.Int(2, in, path+"/"+name, "inj") == 0 {
			out.Attrs[name] = setFlags(v, false, true)
		}
	}
	return out
}

// maskElems turns a few elements of a primitive list / map unknown.
func (x *Ctx) maskElems(v attr.Value, in, p string, nulls bool) attr.Value {
	switch t := v.(type) {
	case types.List:
		if t.Null || t.Unknown {
			return v
		}
		el := make([]attr.Value, len(t.Elems))
		for i, e := range t.Elems {
			el[i] = e
			if x.prf.Int(100, in, fmt.Sprintf("%s[%d]", p, i), "elem-unknown") < 4 {
				el[i] = setFlags(e, false, true)
			} else if nulls && x.prf.Int(100, in, fmt.Sprintf("%s[%d]", p, i), "elem-null") < 8 {
				el[i] = setFlags(e, true, false)
			}
		}
		t.Elems = el
		return t
	case types.Map:
		if t.Null || t.Unknown {
			return v
		}
		el := make(map[string]attr.Value, len(t.Elems))
		for k, e := range t.Elems {
			el[k] = e
			if x.prf.Int(100, in, fmt.Sprintf("%s{%s}", p, k), "elem-unknown") < 4 {
				el[k] = setFlags(e, false, true)
			} else if nulls && x.prf.Int(100, in, fmt.Sprintf("%s{%s}", p, k), "elem-null") < 8 {
				el[k] = setFlags(e, true, false)
			}
		}
		t.Elems = el
		return t
	}
	return v
}

// redecode strips payloads the way the framework would: through the Terraform value.
func redecode(s tfsdk.Schema, obj types.Object) (types.Object, error) {
	ctx := context.Background()
	v, err := obj.ToTerraformValue(ctx)
	if err != nil {
		return types.Object{}, fmt.Errorf("HARNESS: ToTerraformValue of generated plan: %v", err)
	}
	av, err := s.AttributeType().ValueFromTerraform(ctx, v)
	if err != nil {
		return types.Object{}, fmt.Errorf("HARNESS: decoding generated plan: %v", err)
	}
	return av.(types.Object), nil
}

// Plan returns (payload carrier, clean conforming object) for input id in.
func (x *Ctx) Plan(s tfsdk.Schema, in string, mode int) (carrier, clean types.Object, err error) {
	return x.planWith(s, in, mode, false)
}

// PlanNullElems is Plan with null list / map elements allowed (any conforming object, C05).
func (x *Ctx) PlanNullElems(s tfsdk.Schema, in string, mode int) (carrier, clean types.Object, err error) {
	return x.planWith(s, in, mode, true)
}

func (x *Ctx) planWith(s tfsdk.Schema, in string, mode int, nullElems bool) (carrier, clean types.Object, err error) {
	known, err := x.KnownPlan(s, in, mode)
	if err != nil {
		return
	}
	mo := maskFor(mode)
	if nullElems && mo.elemUnknown {
		mo.elemNull = true
	}
	carrier = x.mask(x.Root, known, in, "", mo)
	clean, err = redecode(s, carrier)
	return
}

// ---------------------------------------------------------------------------
// reference decode: what CopyFrom must produce for a conforming object

// convLeaf converts a known Terraform leaf to the Go field type by the
// harness's own rules (documented table of C02 / C19).
func convLeaf(av attr.Value, ft reflect.Type) reflect.Value {
	out := reflect.New(ft).Elem()
	switch t := av.(type) {
	case types.Int64:
		switch ft.Kind() {
		case reflect.Uint, reflect.Uint32, reflect.Uint64:
			out.SetUint(uint64(t.Value))
		default:
			out.SetInt(t.Value)
		}
	case types.Float64:
		if ft.Kind() == reflect.Float32 {
			out.SetFloat(float64(float32(t.Value)))
		} else {
			out.SetFloat(t.Value)
		}
	case types.Bool:
		out.SetBool(t.Value)
	case types.String:
		if ft.Kind() == reflect.Slice {
			out.Set(reflect.ValueOf([]byte(t.Value)).Convert(ft))
		} else {
			out.SetString(t.Value)
		}
	case tfx.AltString:
		out.SetString(t.Value)
	case tfx.AltInt64:
		out.SetInt(t.Value)
	case tfx.AltBool:
		out.SetBool(t.Value)
	case tfx.TimeValue:
		out.Set(reflect.ValueOf(t.Value))
	case tfx.DurationValue:
		out.SetInt(int64(t.Value))
	}
	return out
}

func absent(v attr.Value) bool { return v == nil || v.IsNull() || v.IsUnknown() }

// modelElem is the expected dump of one element / singular value.
func (x *Ctx) modelElem(a *spec.Attr, av attr.Value, ft reflect.Type) interface{} {
	ptr := ft.Kind() == reflect.Ptr
	et := ft
	if ptr {
		et = ft.Elem()
	}
	if a.Msg != nil {
		o, _ := av.(types.Object)
		if absent(av) {
			if ptr {
				return nil
			}
			return x.dumpMsg(reflect.Zero(et), a.Msg, dumpOpt{NF: true})
		}
		return x.modelFrom(a.Msg, o, et)
	}
	if absent(av) {
		if ptr {
			return nil
		}
		return canonLeaf(reflect.Zero(et))
	}
	return canonLeaf(convLeaf(av, et))
}

// modelFrom computes the expected normal-form dump of the struct that
// CopyFrom must produce from a conforming object (fresh target).
func (x *Ctx) modelFrom(ms *spec.Msg, obj types.Object, mt reflect.Type) map[string]interface{} {
	out := map[string]interface{}{}
	for _, a := range ms.Attrs {
		if a.Excluded || a.Kind == spec.KCustom {
			continue
		}
		ft := x.fieldType(mt, a)
		av := obj.Attrs[a.Attr]
		if a.Oneof != nil {
			gk := "oneof:" + a.Oneof.Group
			if _, ok := out[gk]; !ok {
				out[gk] = nil
			}
			if absent(av) {
				continue
			}
			// zero payload == unset (normal form)
			val := x.modelAttr(a, av, ft)
			zero := false
			if a.Msg == nil {
				et := ft
				if et.Kind() == reflect.Ptr {
					et = et.Elem()
					zero = false
				} else {
					zero = isZeroLeaf(convLeaf(av, et))
				}
			}
			if !zero {
				out[gk] = map[string]interface{}{"branch": a.Proto, "value": val}
			}
			continue
		}
		out[akey(a)] = x.modelAttr(a, av, ft)
	}
	return out
}

func (x *Ctx) modelAttr(a *spec.Attr, av attr.Value, ft reflect.Type) interface{} {
	switch a.Kind {
	case spec.KScalar, spec.KObject:
		return x.modelElem(a, av, ft)
	case spec.KList, spec.KObjList:
		l, _ := av.(types.List)
		if absent(av) {
			return []interface{}{}
		}
		out := make([]interface{}, len(l.Elems))
		for i, e := range l.Elems {
			out[i] = x.modelElem(a, e, ft.Elem())
		}
		return out
	case spec.KMap, spec.KObjMap:
		m, _ := av.(types.Map)
		out := map[string]interface{}{}
		if absent(av) {
			return out
		}
		for k, e := range m.Elems {
			out["k:"+k] = x.modelElem(a, e, ft.Elem())
		}
		return out
	}
	return "?"
}

// ModelFrom is modelFrom on the root type.
func (x *Ctx) ModelFrom(obj types.Object) map[string]interface{} {
	return x.modelFrom(x.Root, obj, rootStructType(x))
}

// ---------------------------------------------------------------------------
// locating a diff path in spec and object

// located describes what sits at a diff path of a struct dump.
type located struct {
	Attr    *spec.Attr
	TFState string // "known", "null", "unknown", "absent", "" when no object was given
	InElem  bool
	Group   string // class of the whole oneof group when the path ends at a group
}

func trimIndex(seg string) (string, int) {
	if i := strings.LastIndex(seg, "["); i >= 0 && strings.HasSuffix(seg, "]") {
		n := 0
		fmt.Sscanf(seg[i+1:len(seg)-1], "%d", &n)
		return seg[:i], n
	}
	return seg, -1
}

// locate walks a struct-dump diff path ("/a/b[1]/k:x/c") through the spec and,
// when obj is given, through the object, returning the deepest attribute
// reached and the state of the Terraform value there.
func locate(ms *spec.Msg, obj *types.Object, path string) located {
	segs := strings.Split(strings.TrimPrefix(path, "/"), "/")
	var res located
	var cur attr.Value
	if obj != nil {
		cur = *obj
		res.TFState = "known"
	}
	find := func(m *spec.Msg, key string) *spec.Attr {
		for _, a := range m.Attrs {
			if akey(a) == key {
				return a
			}
		}
		return nil
	}
	step := func(v attr.Value) {
		if obj == nil || res.TFState != "known" {
			return
		}
		switch {
		case v == nil:
			res.TFState = "absent"
		case v.IsNull():
			res.TFState = "null"
		case v.IsUnknown():
			res.TFState = "unknown"
		}
		cur = v
	}
	for i := 0; i < len(segs); i++ {
		seg := segs[i]
		if strings.HasPrefix(seg, "embed:") {
			break
		}
		if strings.HasPrefix(seg, "oneof:") {
			// next: "branch" / "value"; the branch cannot be told from the path: report the group's first attribute
			var cls []string
			for _, a := range ms.Attrs {
				if a.Oneof != nil && "oneof:"+a.Oneof.Group == seg {
					if res.Attr == nil || len(cls) == 0 {
						res.Attr = a
					}
					cls = append(cls, strings.TrimPrefix(a.Class, "oneof "))
				}
			}
			sort.Strings(cls)
			res.Group = "oneof-group{" + strings.Join(cls, ",") + "}"
			break
		}
		if strings.HasPrefix(seg, "k:") {
			if m, ok := cur.(types.Map); ok && res.TFState == "known" {
				step(m.Elems[strings.TrimPrefix(seg, "k:")])
			}
			res.InElem = true
			continue
		}
		name, idx := trimIndex(seg)
		a := find(ms, name)
		if a == nil {
			break
		}
		res.Attr = a
		if o, ok := cur.(types.Object); ok && res.TFState == "known" {
			step(o.Attrs[a.Attr])
		}
		if idx >= 0 {
			res.InElem = true
			if l, ok := cur.(types.List); ok && res.TFState == "known" {
				if idx < len(l.Elems) {
					step(l.Elems[idx])
				} else {
					res.TFState = "absent"
				}
			}
		}
		if a.Msg == nil {
			break
		}
		ms = a.Msg
	}
	return res
}

// classAt returns the class of the attribute at a diff path.
func classAt(ms *spec.Msg, path string) string {
	l := locate(ms, nil, path)
	if l.Attr == nil {
		if strings.Contains(path, "embed:") {
			return "embed-marker"
		}
		return "?"
	}
	c := l.Attr.Class
	if l.Group != "" {
		c = l.Group
	}
	if l.InElem {
		c += " (in element)"
	}
	return c
}

func planKey(g *planGen, p string, i int) string {
	if i >= len(mapKeys) {
		return fmt.Sprintf("key%03d", i)
	}
	return mapKeys[(g.pick(len(mapKeys), p, "keybase")+i)%len(mapKeys)]
}

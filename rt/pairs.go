package rt

import (
	"encoding/json"
	"fmt"
	"io/ioutil"
	"path/filepath"
	"reflect"
	"sort"

	"github.com/hashicorp/terraform-plugin-framework/attr"
	"github.com/hashicorp/terraform-plugin-framework/tfsdk"
	"github.com/hashicorp/terraform-plugin-framework/types"

	"verif/rt/spec"
)

// Pair names two linked cases whose schema and converter behaviour must agree
// on the same logical inputs (differential monitors of C11, C13, C15).
type Pair struct {
	A, B  string
	PRF   string // shared logical case name for the input PRF
	Label string
	// DropSchema: field paths whose schema entries are excluded from the comparison
	// (they are expected to differ and are judged by the model-based oracles).
	DropSchema []string
	// DropAll: field paths excluded from every comparison (excluded fields).
	DropAll []string
	// ModelChecks: also run the model-based structure / flag oracles on B.
	ModelChecks bool
}

func setOf(l []string) map[string]bool {
	m := map[string]bool{}
	for _, s := range l {
		m[s] = true
	}
	return m
}

// dumpTFSpec renders an object keyed by the variant-independent attribute keys.
func (x *Ctx) dumpTFSpec(ms *spec.Msg, obj types.Object, drop map[string]bool) interface{} {
	if obj.Null {
		return "null"
	}
	if obj.Unknown {
		return "unknown"
	}
	out := map[string]interface{}{}
	known := map[string]bool{}
	for _, a := range ms.Live() {
		known[a.Attr] = true
		if drop[a.Path] {
			continue
		}
		k := dumpKeyFull(a)
		av, ok := obj.Attrs[a.Attr]
		if !ok {
			out[k] = "<absent>"
			continue
		}
		if av == nil {
			out[k] = "<nil-interface>"
			continue
		}
		elem := func(e attr.Value) interface{} {
			if eo, ok := e.(types.Object); ok && a.Msg != nil {
				return x.dumpTFSpec(a.Msg, eo, drop)
			}
			return dumpTF(e)
		}
		switch t := av.(type) {
		case types.Object:
			out[k] = elem(t)
		case types.List:
			if t.Null || t.Unknown {
				out[k] = dumpTF(t)
				continue
			}
			l := make([]interface{}, len(t.Elems))
			for i, e := range t.Elems {
				l[i] = elem(e)
			}
			out[k] = l
		case types.Map:
			if t.Null || t.Unknown {
				out[k] = dumpTF(t)
				continue
			}
			m := map[string]interface{}{"@": "map"}
			for kk, e := range t.Elems {
				m["k:"+kk] = elem(e)
			}
			out[k] = m
		default:
			out[k] = dumpTF(av)
		}
	}
	var extra []string
	for n := range obj.Attrs {
		if !known[n] {
			extra = append(extra, n)
		}
	}
	if len(extra) > 0 {
		sort.Strings(extra)
		out["@extra"] = fmt.Sprint(extra)
	}
	return out
}

// dumpKeyFull is akey, but oneof branches keep their own key (objects list every attribute).
func dumpKeyFull(a *spec.Attr) string { return akey(a) }

// dumpSchemaSpec renders the run-time schema keyed by attribute keys (names are
// judged by C02, not here).
func (x *Ctx) dumpSchemaSpec(ms *spec.Msg, attrs map[string]tfsdk.Attribute, drop map[string]bool) interface{} {
	out := map[string]interface{}{}
	known := map[string]bool{}
	for _, a := range ms.Live() {
		known[a.Attr] = true
		if drop[a.Path] {
			continue
		}
		sa, ok := attrs[a.Attr]
		if !ok {
			out[akey(a)] = "<absent>"
			continue
		}
		e := map[string]interface{}{
			"type": fmt.Sprint(sa.Type), "required": sa.Required, "optional": sa.Optional, "computed": sa.Computed, "sensitive": sa.Sensitive,
			"validators": fmt.Sprint(validatorIDs(sa.Validators)), "plan_modifiers": fmt.Sprint(planModIDs(sa.PlanModifiers)), "description": sa.Description,
		}
		if sa.Attributes != nil {
			e["nesting"] = fmt.Sprint(sa.Attributes.GetNestingMode())
			if a.Msg != nil {
				e["attributes"] = x.dumpSchemaSpec(a.Msg, sa.Attributes.GetAttributes(), drop)
			}
		}
		out[akey(a)] = e
	}
	var extra []string
	for n, sa := range attrs {
		if !known[n] {
			extra = append(extra, fmt.Sprintf("%s:%v:r%v:c%v:o%v", n, sa.Type, sa.Required, sa.Computed, sa.Optional))
		}
	}
	sort.Strings(extra)
	if len(extra) > 0 {
		out["@extra"] = fmt.Sprint(extra)
	}
	return out
}

// dumpStructDrop is the exact struct dump without the dropped field paths.
func (x *Ctx) dumpStructDrop(p interface{}, drop map[string]bool) interface{} {
	var strip func(ms *spec.Msg, v interface{}) interface{}
	strip = func(ms *spec.Msg, v interface{}) interface{} {
		m, ok := v.(map[string]interface{})
		if !ok {
			return v
		}
		out := map[string]interface{}{}
		for k, e := range m {
			out[k] = e
		}
		for _, a := range ms.Attrs {
			k := akey(a)
			if a.Oneof != nil {
				// a dropped branch cannot be told apart inside the group: drop the whole group
				gk := "oneof:" + a.Oneof.Group
				if drop[a.Path] {
					delete(out, gk)
				} else if g, ok := out[gk].(map[string]interface{}); ok && g["branch"] == a.Proto && a.Msg != nil {
					out[gk] = map[string]interface{}{"branch": a.Proto, "value": strip(a.Msg, g["value"])}
				}
				continue
			}
			if drop[a.Path] || a.Excluded {
				delete(out, k)
				// the nil-ness of the embeds on the way is coupled to the dropped field
				for i := range a.Access {
					delete(out, "embed:"+chainKey(a.Access[:i+1]))
				}
				continue
			}
			if a.Msg == nil {
				continue
			}
			switch t := out[k].(type) {
			case map[string]interface{}:
				if a.Kind == spec.KObject {
					out[k] = strip(a.Msg, t)
				} else {
					mm := map[string]interface{}{}
					for kk, e := range t {
						mm[kk] = strip(a.Msg, e)
					}
					out[k] = mm
				}
			case []interface{}:
				l := make([]interface{}, len(t))
				for i, e := range t {
					l[i] = strip(a.Msg, e)
				}
				out[k] = l
			}
		}
		return out
	}
	return strip(x.Root, x.DumpStruct(p, dumpOpt{}))
}

func diagKeys(out callOut) []string {
	var r []string
	for _, d := range out.Diags {
		r = append(r, d.Summary()+": "+d.Detail())
	}
	sort.Strings(r)
	return r
}

// behaviour runs the shared logical inputs through the three functions and
// returns one canonical record per event.
func (x *Ctx) behaviour(n int, dropSchema, dropAll map[string]bool) map[string]interface{} {
	rec := map[string]interface{}{}
	s, so := x.Schema()
	if so.Panic != nil {
		rec["schema"] = fmt.Sprint("panic: ", so.Panic)
		return rec
	}
	ds := map[string]bool{}
	for k := range dropSchema {
		ds[k] = true
	}
	for k := range dropAll {
		ds[k] = true
	}
	rec["schema"] = x.dumpSchemaSpec(x.Root, s.Attributes, ds)
	empty, err := emptyObject(s)
	if err != nil {
		rec["schema-type"] = err.Error()
		return rec
	}
	call := func(o callOut) interface{} {
		if o.Panic != nil {
			return map[string]interface{}{"panic": panicClass(o.Panic)}
		}
		return map[string]interface{}{"diags": diagKeys(o)}
	}
	for i := 0; i < n; i++ {
		in := fmt.Sprintf("x%d", i)
		// CopyTo into an empty object, then in place with a second source
		p, _ := x.NewValue(in, inputMode(i))
		obj := empty
		obj.Attrs = nil
		o := x.CopyTo(p, &obj)
		rec["to/"+in] = map[string]interface{}{"call": call(o), "object": x.dumpTFSpec(x.Root, obj, dropAll)}
		if o.Panic == nil {
			p2, _ := x.NewValue(in+"/second", inputMode(i+2))
			o2 := x.CopyTo(p2, &obj)
			rec["refresh/"+in] = map[string]interface{}{"call": call(o2), "object": x.dumpTFSpec(x.Root, obj, dropAll)}
		}
		// CopyFrom of a plan into a fresh and a pre-filled target, then the echo
		_, plan, err := x.Plan(s, in, i%numPlanModes)
		if err != nil {
			rec["plan/"+in] = err.Error()
			continue
		}
		rec["plan/"+in] = x.dumpTFSpec(x.Root, plan, dropAll)
		q := x.T.New()
		f := x.CopyFrom(plan, q)
		rec["from/"+in] = map[string]interface{}{"call": call(f), "struct": x.dumpStructDrop(q, dropAll)}
		q2, _ := x.NewValue(in+"/prior", mDense)
		f2 := x.CopyFrom(plan, q2)
		rec["from-prefilled/"+in] = map[string]interface{}{"call": call(f2), "struct": x.dumpStructDrop(q2, dropAll)}
		if f.Panic == nil {
			echo := deepCopyTF(plan).(types.Object)
			e := x.CopyTo(q, &echo)
			rec["echo/"+in] = map[string]interface{}{"call": call(e), "object": x.dumpTFSpec(x.Root, echo, dropAll)}
		}
	}
	return rec
}

func loadSpec(dir, name string) (*spec.Case, error) {
	b, err := ioutil.ReadFile(filepath.Join(dir, name+".json"))
	if err != nil {
		return nil, err
	}
	cs := &spec.Case{}
	return cs, json.Unmarshal(b, cs)
}

// runPairs is the differential mode of the driver.
func runPairs(o Options, res *Result) {
	b, err := ioutil.ReadFile(o.Pairs)
	if err != nil {
		res.Harness = append(res.Harness, err.Error())
		return
	}
	var pairs []Pair
	if err := json.Unmarshal(b, &pairs); err != nil {
		res.Harness = append(res.Harness, err.Error())
		return
	}
	for _, pr := range pairs {
		sa, err := loadSpec(o.Specs, pr.A)
		if err != nil {
			res.Harness = append(res.Harness, err.Error())
			continue
		}
		sb, err := loadSpec(o.Specs, pr.B)
		if err != nil {
			res.Harness = append(res.Harness, err.Error())
			continue
		}
		ra, rb := registry[pr.A], registry[pr.B]
		if ra == nil || rb == nil {
			res.Harness = append(res.Harness, fmt.Sprintf("pair %s/%s: case not linked", pr.A, pr.B))
			continue
		}
		for _, rootA := range sa.Roots {
			var rootB *spec.Msg
			for _, r := range sb.Roots {
				if r.Name == rootA.Name {
					rootB = r
				}
			}
			if rootB == nil || ra.Types[rootA.Name] == nil || rb.Types[rootA.Name] == nil {
				res.Harness = append(res.Harness, fmt.Sprintf("pair %s/%s: type %s not available on both sides", pr.A, pr.B, rootA.Name))
				continue
			}
			prf := PRF{Seed: uint64(o.Seed), Case: pr.PRF + "/" + rootA.Name}
			xa := &Ctx{Opt: o, Case: sa, Reg: ra, Root: rootA, T: ra.Types[rootA.Name], Res: res, prf: prf}
			xb := &Ctx{Opt: o, Case: sb, Reg: rb, Root: rootB, T: rb.Types[rootA.Name], Res: res, prf: prf}
			if err := xa.selfCheck(); err != nil {
				res.Harness = append(res.Harness, err.Error())
				continue
			}
			if err := xb.selfCheck(); err != nil {
				res.Harness = append(res.Harness, err.Error())
				continue
			}
			func() {
				defer func() {
					if r := recover(); r != nil {
						res.Harness = append(res.Harness, fmt.Sprintf("pair %s/%s: monitor panicked: %v\n%s", pr.A, pr.B, r, stack()))
					}
				}()
				n := xb.Budget(40, 300)
				da := xa.behaviour(n, setOf(pr.DropSchema), setOf(pr.DropAll))
				db := xb.behaviour(n, setOf(pr.DropSchema), setOf(pr.DropAll))
				xb.Eval(len(db))
				xb.Count("events-compared", len(db))
				xb.Distinct(pr.Label + "|" + pr.A + "|" + pr.B)
				if len(res.Samples) < 3 {
					res.Samples = append(res.Samples, map[string]interface{}{"pair": pr.A + " vs " + pr.B, "label": pr.Label, "type": rootA.Name, "events": len(db),
						"drop_schema": pr.DropSchema, "drop_all": pr.DropAll, "example_event": "to/x1", "example": db["to/x1"]})
				}
				if !reflect.DeepEqual(da, db) {
					seen := map[string]bool{}
					for _, d := range DiffPaths(da, db) {
						ev := d
						if len(ev) > 1 {
							// first path segment is the event key ("to/x3" contains a slash: take two segments)
							segs := splitN(d, 3)
							ev = segs[0] + "/" + segs[1]
						}
						kind := eventKind(d)
						if seen[kind] {
							continue
						}
						seen[kind] = true
						na, _ := nodeAtLoose(da, d)
						nb, _ := nodeAtLoose(db, d)
						xb.Violate("differs/"+pr.Label+"/"+kind, pr.A+" vs "+pr.B+" "+ev, fmt.Sprintf("variants disagree at %s: %s vs %s", d, short(na), short(nb)), nil)
					}
				}
				if pr.ModelChecks {
					s, so := xb.Schema()
					if so.Panic == nil {
						var probs []problem
						xb.quiet = true
						xb.schemaStructure(rootB, s.Attributes, rootB.Name, &probs)
						xb.flagsWalk(rootB, s.Attributes, rootB.Name, &probs)
						for _, p := range probs {
							xb.Violate("model/"+pr.Label+"/"+p.fp, pr.B, p.path+": "+p.msg, nil)
						}
					}
				}
			}()
		}
	}
}

func splitN(path string, n int) []string {
	var out []string
	cur := ""
	for _, r := range path[1:] {
		if r == '/' && len(out) < n-1 {
			out = append(out, cur)
			cur = ""
			continue
		}
		cur += string(r)
	}
	out = append(out, cur)
	for len(out) < n {
		out = append(out, "")
	}
	return out
}

// eventKind reduces a diff path to "<event kind>/<record part>".
func eventKind(d string) string {
	segs := splitN(d, 4)
	if segs[0] == "schema" {
		return "schema"
	}
	return segs[0] + "/" + segs[2]
}

// nodeAtLoose follows a diff path whose first key contains a slash.
func nodeAtLoose(v map[string]interface{}, d string) (interface{}, bool) {
	segs := splitN(d, 3)
	if segs[0] == "schema" {
		return nodeAt(v, d)
	}
	root, ok := v[segs[0]+"/"+segs[1]]
	if !ok {
		return nil, false
	}
	if segs[2] == "" {
		return root, true
	}
	return nodeAt(root, "/"+segs[2])
}

// Package spec is the reference model's output: what the documentation and the
// property statements promise for one (descriptor, configuration) pair. It is
// produced by internal/refmodel from the harness IR only and consumed by the
// run-time monitors in package rt.
package spec

// Leaf classes (Terraform side).
const (
	LInt64    = "int64"
	LFloat64  = "float64"
	LBool     = "bool"
	LString   = "string"
	LTime     = "time"
	LDuration = "duration"
)

// Attribute kinds.
const (
	KScalar  = "scalar"
	KList    = "list"
	KMap     = "map"
	KObject  = "object"
	KObjList = "objlist"
	KObjMap  = "objmap"
	KCustom  = "custom"
)

// Step is one embedded struct to traverse before reaching a field.
type Step struct {
	GoName string `json:"go"`
	Ptr    bool   `json:"ptr,omitempty"`
	// Msg is the proto message name of the embedded struct.
	Msg string `json:"msg,omitempty"`
}

// OneofRef places a field inside a oneof group.
type OneofRef struct {
	Holder  string `json:"holder"`  // Go name of the interface field
	Wrapper string `json:"wrapper"` // Go name of the wrapper struct type
	Name    string `json:"name"`    // proto name of the oneof
	Group   string `json:"group"`   // unique id of the group inside its message level (access chain + holder)
}

// Attr describes one proto field and the attribute promised for it.
type Attr struct {
	Proto   string `json:"proto"`
	GoName  string `json:"go"`
	Path    string `json:"path"`
	TypeKey string `json:"type_key"`
	Attr    string `json:"attr"`
	Kind    string `json:"kind"`
	Leaf    string `json:"leaf,omitempty"`
	// ProtoType is the proto scalar/enum/message type name, for evidence and fingerprints.
	ProtoType string `json:"proto_type,omitempty"`
	// EnumNumbers lists the declared numbers of an enum leaf.
	EnumNumbers []int32 `json:"enum_numbers,omitempty"`
	Ptr         bool    `json:"ptr,omitempty"` // pointer field, element or map value
	// ByValueTemporal: time/duration held by value (excluded from the C20 zero-is-null rule).
	Access   []Step    `json:"access,omitempty"`
	Oneof    *OneofRef `json:"oneof,omitempty"`
	Excluded bool      `json:"excluded,omitempty"`

	Required      bool     `json:"required,omitempty"`
	Computed      bool     `json:"computed,omitempty"`
	Sensitive     bool     `json:"sensitive,omitempty"`
	Validators    []string `json:"validators,omitempty"`     // ids
	PlanModifiers []string `json:"plan_modifiers,omitempty"` // ids; "USFU" = tfsdk.UseStateForUnknown()
	Description   string   `json:"description"`
	HasComment    bool     `json:"has_comment,omitempty"`

	Msg          *Msg   `json:"msg,omitempty"`
	CustomSuffix string `json:"custom_suffix,omitempty"`
	CustomType   string `json:"custom_type,omitempty"`
	Cast         bool   `json:"cast,omitempty"`
	// Alt: the Terraform type of the leaf is overridden through schema_types
	// (harness types tfx.AltString / AltInt64 / AltBool).
	Alt bool `json:"alt,omitempty"`
	// Class is a short shape class used in fingerprints and evidence
	// (e.g. "map<string,bytes>", "repeated msg(empty)", "embed? child string").
	Class string `json:"class"`
}

// InEmbedPtr reports whether the field is reached through a nullable embed.
func (a *Attr) InEmbedPtr() bool {
	for _, s := range a.Access {
		if s.Ptr {
			return true
		}
	}
	return false
}

// Injected is a schema-only attribute.
type Injected struct {
	Name          string   `json:"name"`
	Type          string   `json:"type"` // "string","int64","bool","float64"
	Required      bool     `json:"required,omitempty"`
	Computed      bool     `json:"computed,omitempty"`
	Optional      bool     `json:"optional,omitempty"`
	Validators    []string `json:"validators,omitempty"`
	PlanModifiers []string `json:"plan_modifiers,omitempty"`
}

// Msg is one occurrence of a message in the attribute tree.
type Msg struct {
	Name     string     `json:"name"`
	Path     string     `json:"path"`
	Attrs    []*Attr    `json:"attrs"`
	Injected []Injected `json:"injected,omitempty"`
	Empty    bool       `json:"empty,omitempty"`
	// Placeholder: the level shows the artificial attribute `active` (the message has no
	// fields, or it embeds a message without fields, whose placeholder is flattened into it).
	Placeholder bool `json:"placeholder,omitempty"`
	// DepPkg: the Go struct lives in the dependency package.
	Dep bool `json:"dep,omitempty"`
}

// Live returns the non-excluded attributes.
func (m *Msg) Live() []*Attr {
	var r []*Attr
	for _, a := range m.Attrs {
		if !a.Excluded {
			r = append(r, a)
		}
	}
	return r
}

// Case is the model of one generated package.
type Case struct {
	Name    string `json:"name"`
	Variant string `json:"variant,omitempty"`
	// Roots are the selected types that must be generated.
	Roots []*Msg `json:"roots"`
	// TimeCtor / DurCtor: the schema type comes from the configured constructor.
	TimeCtor bool `json:"time_ctor,omitempty"`
	DurCtor  bool `json:"dur_ctor,omitempty"`
	// Tags: constructs present in the case (for evidence and corpus selection).
	Tags []string `json:"tags,omitempty"`
}

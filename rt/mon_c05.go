package rt

import (
	"fmt"
	"github.com/hashicorp/terraform-plugin-framework/attr"
	"reflect"

	"github.com/hashicorp/terraform-plugin-framework/tfsdk"
	"github.com/hashicorp/terraform-plugin-framework/types"

	"verif/rt/spec"
)

func init() { monitors["C05"] = monC05 }

// schemaOrViolate fetches the schema; a failure is a violation of the running property.
func (x *Ctx) schemaOrViolate() (tfsdk.Schema, bool) {
	s, so := x.Schema()
	if so.Panic != nil || so.Diags.HasError() {
		x.Violate("schema-failed", "-", fmt.Sprintf("GenSchema failed: %v %v", so.Panic, so.Diags), nil)
		return s, false
	}
	if _, ok := s.AttributeType().(types.ObjectType); !ok {
		x.Violate("schema-type", "-", "schema attribute type is not an object type", nil)
		return s, false
	}
	return s, true
}

// isZeroField reports whether the Go storage of a holds its zero / nil / empty value.
func (x *Ctx) isZeroField(f reflect.Value, a *spec.Attr) bool {
	switch a.Kind {
	case spec.KScalar:
		if f.Kind() == reflect.Ptr {
			return f.IsNil()
		}
		return isZeroLeaf(f)
	case spec.KList, spec.KMap, spec.KObjList, spec.KObjMap:
		return f.Len() == 0
	case spec.KObject:
		if f.Kind() == reflect.Ptr {
			return f.IsNil()
		}
		return reflect.DeepEqual(x.dumpMsg(f, a.Msg, dumpOpt{NF: true}), x.dumpMsg(reflect.Zero(f.Type()), a.Msg, dumpOpt{NF: true}))
	}
	return true
}

// checkAbsent walks spec, result struct and object together: every null or
// unknown attribute (inside known parents) must have left its field zero.
func (x *Ctx) checkAbsent(ms *spec.Msg, mv reflect.Value, obj types.Object, path, in, target string, detail func() interface{}) {
	groups := map[string][]*spec.Attr{}
	for _, a := range ms.Live() {
		av, ok := obj.Attrs[a.Attr]
		if !ok || av == nil {
			continue
		}
		p := path + "." + a.Attr
		if a.Oneof != nil {
			groups[a.Oneof.Group] = append(groups[a.Oneof.Group], a)
		}
		if a.Kind == spec.KCustom {
			continue
		}
		f, st := getField(mv, a)
		if absent(av) {
			x.Count("absent-positions-judged", 1)
			state := "null"
			if av.IsUnknown() {
				state = "unknown"
			}
			if a.Oneof != nil {
				continue // judged per group below
			}
			if st == fOK && !x.isZeroField(f, a) {
				x.Violate(fmt.Sprintf("not-reset/%s/%s/target=%s", a.Class, state, target), in,
					fmt.Sprintf("%s is %s but the field holds %s", p, state, short(x.dumpAttr(f, a, dumpOpt{}))), detail())
			}
			continue
		}
		if st != fOK {
			continue
		}
		// a null / unknown element or map value of a known collection: nil where the Go element is a pointer
		// (judged only when the collection kept its shape)
		elemNil := func(ev reflect.Value, e attr.Value, where string) {
			if ev.IsValid() && ev.Kind() == reflect.Ptr && e != nil && absent(e) {
				x.Count("absent-elements-judged", 1)
				if !ev.IsNil() {
					state := "null"
					if e.IsUnknown() {
						state = "unknown"
					}
					x.Violate(fmt.Sprintf("element-not-nil/%s/%s", a.Class, state), in, fmt.Sprintf("%s is %s but the element is a non-nil pointer", where, state), detail())
				}
			}
		}
		switch a.Kind {
		case spec.KList, spec.KObjList:
			if l, ok := av.(types.List); ok && f.Kind() == reflect.Slice && f.Len() == len(l.Elems) {
				for i, e := range l.Elems {
					elemNil(f.Index(i), e, fmt.Sprintf("%s[%d]", p, i))
				}
			}
		case spec.KMap, spec.KObjMap:
			if m, ok := av.(types.Map); ok && f.Kind() == reflect.Map && f.Len() == len(m.Elems) {
				for k, e := range m.Elems {
					elemNil(f.MapIndex(reflect.ValueOf(k)), e, fmt.Sprintf("%s{%s}", p, k))
				}
			}
		}
		if a.Msg == nil {
			continue
		}
		switch a.Kind {
		case spec.KObject:
			o := av.(types.Object)
			if f.Kind() == reflect.Ptr {
				if f.IsNil() {
					continue
				}
				f = f.Elem()
			}
			x.checkAbsent(a.Msg, f, o, p, in, target, detail)
		case spec.KObjList:
			l := av.(types.List)
			if f.Len() != len(l.Elems) {
				continue
			}
			for i, e := range l.Elems {
				eo, ok := e.(types.Object)
				if !ok || absent(e) {
					continue
				}
				ev := f.Index(i)
				if ev.Kind() == reflect.Ptr {
					if ev.IsNil() {
						continue
					}
					ev = ev.Elem()
				}
				x.checkAbsent(a.Msg, ev, eo, fmt.Sprintf("%s[%d]", p, i), in, target, detail)
			}
		case spec.KObjMap:
			m := av.(types.Map)
			for k, e := range m.Elems {
				eo, ok := e.(types.Object)
				if !ok || absent(e) {
					continue
				}
				ev := f.MapIndex(reflect.ValueOf(k))
				if !ev.IsValid() {
					continue
				}
				if ev.Kind() == reflect.Ptr {
					if ev.IsNil() {
						continue
					}
					ev = ev.Elem()
				} else {
					c := reflect.New(ev.Type()).Elem()
					c.Set(ev)
					ev = c
				}
				x.checkAbsent(a.Msg, ev, eo, fmt.Sprintf("%s{%s}", p, k), in, target, detail)
			}
		}
	}
	for gname, br := range groups {
		all := true
		for _, a := range br {
			if !absent(obj.Attrs[a.Attr]) {
				all = false
			}
		}
		if !all {
			continue
		}
		cont, ok := container(mv, br[0], false)
		if !ok {
			continue
		}
		h := cont.FieldByName(br[0].Oneof.Holder)
		if !h.IsNil() {
			where := "own"
			if len(br[0].Access) > 0 {
				where = "declared-in-embedded-message"
			}
			x.Violate(fmt.Sprintf("oneof-not-reset/%s/target=%s", where, target), in,
				fmt.Sprintf("%s: all branches of oneof %s are null or unknown but the holder is %s", path, gname, h.Elem().Type()), detail())
		}
	}
}

// rootExcluded dumps the excluded fields reachable at the root level.
func (x *Ctx) rootExcluded(p interface{}) map[string]interface{} {
	out := map[string]interface{}{}
	mv := reflect.ValueOf(p).Elem()
	for _, a := range x.Root.Attrs {
		if !a.Excluded {
			continue
		}
		if a.Oneof != nil {
			continue
		}
		f, st := getField(mv, a)
		if st == fOK {
			out[akey(a)] = x.dumpAttr(f, a, dumpOpt{})
		}
	}
	return out
}

func monC05(x *Ctx) {
	s, ok := x.schemaOrViolate()
	if !ok {
		return
	}
	n := x.Budget(120, 1200)
	for i := 0; i < n; i++ {
		in := fmt.Sprintf("p%d", i)
		carrier, clean, err := x.PlanNullElems(s, in, i%numPlanModes)
		if err != nil {
			x.Res.Harness = append(x.Res.Harness, err.Error())
			return
		}
		x.Distinct(sigOf(dumpShape(clean)))
		if i == 1 {
			x.Sample(map[string]interface{}{"case": x.Case.Name, "type": x.Root.Name, "input": in, "object": dumpTF(clean)})
		}
		results := map[string]map[string]interface{}{}
		for _, variant := range []struct {
			name string
			obj  types.Object
		}{{"clean", clean}, {"payload", carrier}} {
			for _, target := range []string{"fresh", "prefilled"} {
				var q interface{}
				var exclBefore map[string]interface{}
				if target == "fresh" {
					q = x.T.New()
				} else {
					q, _ = x.NewValue(in+"/prior", []int{mDense, mMixed, mBoundary}[i%3])
					exclBefore = x.rootExcluded(q)
				}
				x.Eval(1)
				out := x.CopyFrom(variant.obj, q)
				detail := func() interface{} {
					return map[string]interface{}{"object": dumpTF(variant.obj), "result": x.DumpStruct(q, dumpOpt{}), "variant": variant.name}
				}
				if out.Panic != nil {
					x.Violate(panicFP("CopyFrom", out)+"/"+x.embedTypeClass(), in, "CopyFrom panicked on a conforming object", map[string]interface{}{"panic": panicDetail(out), "object": dumpTF(variant.obj)})
					continue
				}
				if e := out.errs(); len(e) > 0 {
					x.Violate("error-diag", in, "CopyFrom returned error diagnostics on a conforming object", map[string]interface{}{"diags": e, "object": dumpTF(variant.obj)})
					continue
				}
				x.checkAbsent(x.Root, reflect.ValueOf(q).Elem(), clean, x.Root.Name, in, target+"/"+variant.name, detail)
				if target == "prefilled" {
					after := x.rootExcluded(q)
					// an excluded child of a nullable embedded struct is compared while that struct exists on both sides
					for k := range exclBefore {
						if _, ok := after[k]; !ok {
							delete(exclBefore, k)
						}
					}
					for k := range after {
						if _, ok := exclBefore[k]; !ok {
							delete(after, k)
						}
					}
					x.Count("excluded-fields-compared", len(after))
					if !reflect.DeepEqual(exclBefore, after) {
						x.Violate("excluded-touched", in, fmt.Sprintf("excluded fields changed: %v", DiffPaths(exclBefore, after)), detail())
					}
				}
				results[variant.name+"/"+target] = x.DumpStruct(q, dumpOpt{NF: true})
				// the caller owns the result: it writes into the empty maps it got back (a later call
				// must not hand the same map out again)
				x.Count("returned-empty-maps-written-to", poisonEmptyMaps(reflect.ValueOf(q), 0))
			}
		}
		// the same object handed over with its own Null / Unknown flag set (a hand-built value that carries its
		// payload under the flag): whatever the converter makes of the flag, the excluded fields are not its to touch
		if i%3 != 2 {
			flagged := clean
			flagged.Null, flagged.Unknown = i%3 == 0, i%3 == 1
			q, _ := x.NewValue(in+"/prior-flagged", mDense)
			before := x.rootExcluded(q)
			x.Eval(1)
			out := x.CopyFrom(flagged, q)
			if out.Panic != nil {
				x.Violate(panicFP("CopyFrom", out)+"/"+x.embedTypeClass(), in, "CopyFrom panicked on a conforming object (its own null/unknown flag set)", map[string]interface{}{"panic": panicDetail(out), "object": dumpTF(flagged)})
			} else {
				after := x.rootExcluded(q)
				for k := range before {
					if _, ok := after[k]; !ok {
						delete(before, k)
					}
				}
				for k := range after {
					if _, ok := before[k]; !ok {
						delete(after, k)
					}
				}
				x.Count("excluded-fields-compared-root-flagged", len(after))
				if !reflect.DeepEqual(before, after) {
					x.Violate("excluded-touched/root-flagged", in, fmt.Sprintf("excluded fields changed (object flagged null=%v unknown=%v): %v", flagged.Null, flagged.Unknown, DiffPaths(before, after)), map[string]interface{}{"object": dumpTF(flagged)})
				}
			}
		}
		// the payload under a null / unknown flag never matters
		for _, target := range []string{"fresh", "prefilled"} {
			a, b := results["clean/"+target], results["payload/"+target]
			if a == nil || b == nil {
				continue
			}
			if !reflect.DeepEqual(a, b) {
				seen := map[string]bool{}
				for _, d := range DiffPaths(a, b) {
					cls := classAt(x.Root, d)
					if seen[cls] {
						continue
					}
					seen[cls] = true
					x.Violate("payload-dependence/"+cls, in, "result depends on the payload under a null/unknown flag at "+d,
						map[string]interface{}{"path": d, "clean": a, "payload": b, "object": dumpTF(carrier), "target": target})
				}
			}
		}
	}
}

// dumpShape is a coarse signature of an object: per attribute null / unknown / known (+length).
func dumpShape(v interface{}) interface{} {
	switch t := v.(type) {
	case types.Object:
		if t.Null {
			return "n"
		}
		if t.Unknown {
			return "u"
		}
		out := map[string]interface{}{}
		for k, e := range t.Attrs {
			out[k] = dumpShape(e)
		}
		return out
	case types.List:
		if t.Null {
			return "n"
		}
		if t.Unknown {
			return "u"
		}
		out := []interface{}{}
		for _, e := range t.Elems {
			out = append(out, dumpShape(e))
		}
		return out
	case types.Map:
		if t.Null {
			return "n"
		}
		if t.Unknown {
			return "u"
		}
		out := map[string]interface{}{}
		for k, e := range t.Elems {
			out[k] = dumpShape(e)
		}
		return out
	case interface {
		IsNull() bool
		IsUnknown() bool
	}:
		if t.IsNull() {
			return "n"
		}
		if t.IsUnknown() {
			return "u"
		}
		return "k"
	}
	return "?"
}

// sigOf hashes a canonical tree into a short signature.
func sigOf(v interface{}) string {
	return fmt.Sprintf("%016x", hashStr(14695981039346656037, fmt.Sprintf("%v", v)))
}

// poisonEmptyMaps stores one entry into every non-nil empty map reachable from v and returns how many it found.
func poisonEmptyMaps(v reflect.Value, depth int) int {
	if depth > 12 || !v.IsValid() {
		return 0
	}
	n := 0
	switch v.Kind() {
	case reflect.Ptr, reflect.Interface:
		if !v.IsNil() {
			n += poisonEmptyMaps(v.Elem(), depth+1)
		}
	case reflect.Struct:
		if v.Type() == timeType {
			return 0
		}
		for i := 0; i < v.NumField(); i++ {
			if v.Type().Field(i).PkgPath == "" {
				n += poisonEmptyMaps(v.Field(i), depth+1)
			}
		}
	case reflect.Slice:
		if v.Type().Elem().Kind() != reflect.Uint8 {
			for i := 0; i < v.Len(); i++ {
				n += poisonEmptyMaps(v.Index(i), depth+1)
			}
		}
	case reflect.Map:
		if v.IsNil() {
			return 0
		}
		if v.Len() == 0 && v.Type().Key().Kind() == reflect.String {
			v.SetMapIndex(reflect.ValueOf("written-by-the-caller").Convert(v.Type().Key()), reflect.Zero(v.Type().Elem()))
			return 1
		}
		for _, k := range v.MapKeys() {
			n += poisonEmptyMaps(v.MapIndex(k), depth+1)
		}
	}
	return n
}

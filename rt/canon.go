package rt

import (
	"encoding/hex"
	"fmt"
	"math"
	"reflect"
	"sort"
	"strconv"
	"time"

	"github.com/hashicorp/terraform-plugin-framework/attr"
	"github.com/hashicorp/terraform-plugin-framework/types"

	"verif/rt/spec"
	"verif/rt/tfx"
)

// dumpOpt controls the canonical struct dump.
type dumpOpt struct {
	// NF applies the documented normal form of C04: zero-payload oneofs read as
	// unset, all-zero nullable embeds as nil, excluded and custom fields dropped.
	NF bool
}

func canonFloat(f float64, bits int) string {
	if f == 0 {
		f = 0 // fold -0
	}
	if math.IsNaN(f) {
		return "f:NaN"
	}
	return "f:" + strconv.FormatUint(math.Float64bits(f), 16) + "(" + strconv.FormatFloat(f, 'g', -1, bits) + ")"
}

func canonTime(t time.Time) string {
	_, off := t.Zone()
	return fmt.Sprintf("t:%d.%09d@%d", t.Unix(), t.Nanosecond(), off)
}

// canonLeaf renders a scalar-like Go value.
func canonLeaf(v reflect.Value) interface{} {
	if v.Type() == timeType {
		return canonTime(v.Interface().(time.Time))
	}
	switch v.Kind() {
	case reflect.Bool:
		return "b:" + strconv.FormatBool(v.Bool())
	case reflect.String:
		return "s:" + strconv.Quote(v.String())
	case reflect.Slice:
		return "x:" + hex.EncodeToString(v.Bytes())
	case reflect.Int, reflect.Int32, reflect.Int64:
		return "i:" + strconv.FormatInt(v.Int(), 10)
	case reflect.Uint, reflect.Uint32, reflect.Uint64:
		return "u:" + strconv.FormatUint(v.Uint(), 10)
	case reflect.Float32:
		return canonFloat(v.Float(), 32)
	case reflect.Float64:
		return canonFloat(v.Float(), 64)
	}
	return fmt.Sprintf("?:%#v", v.Interface())
}

func isZeroLeaf(v reflect.Value) bool {
	if v.Type() == timeType {
		return v.Interface().(time.Time) == time.Time{}
	}
	switch v.Kind() {
	case reflect.Slice:
		return v.Len() == 0
	case reflect.Float32, reflect.Float64:
		return v.Float() == 0
	}
	return v.IsZero()
}

func (x *Ctx) dumpElem(v reflect.Value, a *spec.Attr, o dumpOpt) interface{} {
	if v.Kind() == reflect.Ptr {
		if v.IsNil() {
			return nil
		}
		v = v.Elem()
	}
	if a.Msg != nil {
		return x.dumpMsg(v, a.Msg, o)
	}
	return canonLeaf(v)
}

// dumpAttr renders the field backing a.
func (x *Ctx) dumpAttr(f reflect.Value, a *spec.Attr, o dumpOpt) interface{} {
	switch a.Kind {
	case spec.KScalar, spec.KObject:
		return x.dumpElem(f, a, o)
	case spec.KList, spec.KObjList:
		out := make([]interface{}, f.Len())
		for i := 0; i < f.Len(); i++ {
			out[i] = x.dumpElem(f.Index(i), a, o)
		}
		return out
	case spec.KMap, spec.KObjMap:
		out := map[string]interface{}{}
		it := f.MapRange()
		for it.Next() {
			out["k:"+it.Key().String()] = x.dumpElem(it.Value(), a, o)
		}
		return out
	case spec.KCustom:
		return fmt.Sprintf("custom:%v", derefAll(f))
	}
	return "?"
}

func derefAll(v reflect.Value) interface{} {
	for v.Kind() == reflect.Ptr {
		if v.IsNil() {
			return nil
		}
		v = v.Elem()
	}
	return v.Interface()
}

// zeroDump is the dump of the zero value of the field backing a.
func zeroDump(ft reflect.Type, a *spec.Attr, x *Ctx, o dumpOpt) interface{} {
	return x.dumpAttr(reflect.Zero(ft), a, o)
}

// dumpMsg renders a message struct (mv: struct value) keyed by akey.
func (x *Ctx) dumpMsg(mv reflect.Value, ms *spec.Msg, o dumpOpt) map[string]interface{} {
	out := map[string]interface{}{}
	seenEmbed := map[string]bool{}
	for _, a := range ms.Attrs {
		if o.NF && (a.Excluded || a.Kind == spec.KCustom) {
			continue
		}
		if !o.NF {
			// record nil-ness of nullable embeds
			cur := mv
			for i, s := range a.Access {
				f := cur.FieldByName(s.GoName)
				if s.Ptr {
					k := "embed:" + chainKey(a.Access[:i+1])
					if f.IsNil() {
						if !seenEmbed[k] {
							out[k] = "nil"
							seenEmbed[k] = true
						}
						break
					}
					if !seenEmbed[k] {
						out[k] = "set"
						seenEmbed[k] = true
					}
					cur = f.Elem()
				} else {
					cur = f
				}
			}
		}
		if a.Oneof != nil {
			gk := "oneof:" + a.Oneof.Group
			f, st := getField(mv, a)
			if st != fOK {
				if _, ok := out[gk]; !ok {
					out[gk] = nil
				}
				continue
			}
			if o.NF {
				// zero payload == unset
				zero := false
				switch {
				case f.Kind() == reflect.Ptr:
					zero = f.IsNil()
				case a.Msg != nil:
					zero = false
				default:
					zero = isZeroLeaf(f)
				}
				if zero {
					out[gk] = nil
					continue
				}
			}
			out[gk] = map[string]interface{}{"branch": a.Proto, "value": x.dumpAttr(f, a, o)}
			continue
		}
		f, st := getField(mv, a)
		if st == fEmbedNil {
			out[akey(a)] = zeroDump(x.fieldType(mv.Type(), a), a, x, o)
			continue
		}
		out[akey(a)] = x.dumpAttr(f, a, o)
	}
	return out
}

// DumpStruct renders the root struct pointed to by p.
func (x *Ctx) DumpStruct(p interface{}, o dumpOpt) map[string]interface{} {
	return x.dumpMsg(reflect.ValueOf(p).Elem(), x.Root, o)
}

// dumpTF renders an attr.Value tree.
func dumpTF(v attr.Value) interface{} {
	switch t := v.(type) {
	case nil:
		return "<nil-interface>"
	case types.Object:
		if t.Null {
			return "null"
		}
		if t.Unknown {
			return "unknown"
		}
		out := map[string]interface{}{}
		for k, e := range t.Attrs {
			out[k] = dumpTF(e)
		}
		return out
	case types.List:
		if t.Null {
			return "null"
		}
		if t.Unknown {
			return "unknown"
		}
		out := make([]interface{}, len(t.Elems))
		for i, e := range t.Elems {
			out[i] = dumpTF(e)
		}
		return out
	case types.Map:
		if t.Null {
			return "null"
		}
		if t.Unknown {
			return "unknown"
		}
		out := map[string]interface{}{"@": "map"}
		for k, e := range t.Elems {
			out["k:"+k] = dumpTF(e)
		}
		return out
	case types.String:
		if t.Null {
			return "null"
		}
		if t.Unknown {
			return "unknown"
		}
		return "s:" + strconv.Quote(t.Value)
	case types.Int64:
		if t.Null {
			return "null"
		}
		if t.Unknown {
			return "unknown"
		}
		return "i:" + strconv.FormatInt(t.Value, 10)
	case types.Float64:
		if t.Null {
			return "null"
		}
		if t.Unknown {
			return "unknown"
		}
		return canonFloat(t.Value, 64)
	case types.Bool:
		if t.Null {
			return "null"
		}
		if t.Unknown {
			return "unknown"
		}
		return "b:" + strconv.FormatBool(t.Value)
	case tfx.AltString:
		if t.Null {
			return "null"
		}
		if t.Unknown {
			return "unknown"
		}
		return "s:" + strconv.Quote(t.Value)
	case tfx.AltInt64:
		if t.Null {
			return "null"
		}
		if t.Unknown {
			return "unknown"
		}
		return "i:" + strconv.FormatInt(t.Value, 10)
	case tfx.AltBool:
		if t.Null {
			return "null"
		}
		if t.Unknown {
			return "unknown"
		}
		return "b:" + strconv.FormatBool(t.Value)
	case tfx.TimeValue:
		if t.Null {
			return "null"
		}
		if t.Unknown {
			return "unknown"
		}
		return canonTime(t.Value)
	case tfx.DurationValue:
		if t.Null {
			return "null"
		}
		if t.Unknown {
			return "unknown"
		}
		return "d:" + strconv.FormatInt(int64(t.Value), 10)
	}
	return fmt.Sprintf("?%T", v)
}

// diffTrees lists the paths at which two canonical trees differ.
func diffTrees(a, b interface{}, path string, out *[]string) {
	if len(*out) > 50 {
		return
	}
	switch ta := a.(type) {
	case map[string]interface{}:
		tb, ok := b.(map[string]interface{})
		if !ok {
			*out = append(*out, path)
			return
		}
		keys := map[string]bool{}
		for k := range ta {
			keys[k] = true
		}
		for k := range tb {
			keys[k] = true
		}
		ks := make([]string, 0, len(keys))
		for k := range keys {
			ks = append(ks, k)
		}
		sort.Strings(ks)
		for _, k := range ks {
			va, oka := ta[k]
			vb, okb := tb[k]
			if !oka || !okb {
				*out = append(*out, path+"/"+k)
				continue
			}
			diffTrees(va, vb, path+"/"+k, out)
		}
	case []interface{}:
		tb, ok := b.([]interface{})
		if !ok || len(ta) != len(tb) {
			*out = append(*out, path)
			return
		}
		for i := range ta {
			diffTrees(ta[i], tb[i], fmt.Sprintf("%s[%d]", path, i), out)
		}
	default:
		if !reflect.DeepEqual(a, b) {
			*out = append(*out, path)
		}
	}
}

// DiffPaths returns the differing paths of two trees.
func DiffPaths(a, b interface{}) []string {
	var out []string
	diffTrees(a, b, "", &out)
	return out
}

// getPath fetches the node at a diff path (best effort, for messages).
func short(v interface{}) string {
	s := fmt.Sprintf("%v", v)
	if len(s) > 300 {
		s = s[:300] + "…"
	}
	return s
}

// attrValue is attr.Value (kept local to avoid import cycles in helpers).
type attrValue = attr.Value

package rt

import (
	"context"
	"fmt"
	"reflect"
	"sort"
	"strings"

	"github.com/hashicorp/terraform-plugin-framework/attr"
	"github.com/hashicorp/terraform-plugin-framework/diag"
	"github.com/hashicorp/terraform-plugin-framework/types"
	"github.com/hashicorp/terraform-plugin-go/tftypes"

	"verif/rt/spec"
)

func init() { monitors["C06"] = monC06 }

// wrongValue is an attr.Value of a Go type no generated code expects.
type wrongValue struct{}

func (wrongValue) Type(context.Context) attr.Type { return types.BoolType }
func (wrongValue) ToTerraformValue(context.Context) (tftypes.Value, error) {
	return tftypes.NewValue(tftypes.Bool, nil), nil
}
func (wrongValue) Equal(attr.Value) bool { return false }
func (wrongValue) IsNull() bool          { return false }
func (wrongValue) IsUnknown() bool       { return false }
func (wrongValue) String() string        { return "wrongValue" }

// fpos is one fault position inside a conforming object.
type fpos struct {
	TFPath   string // Root.a.b[0].c
	DumpPath string // /A/B[0]/C (struct dump path prefix whose content is not judged)
	Attr     *spec.Attr
	// steps to reach the container object, then the attribute name
	steps []pstep
	// element position: index / key inside the attribute's list / map
	elemIdx int
	elemKey string
	isElem  bool
	// number of live attributes of the object value at this attribute (for attrs-nil)
	childAttrs int
	childPaths []string
	isObject   bool
	isColl     bool
}

type pstep struct {
	attr  string
	idx   int    // >=0: list element
	key   string // map element when isKey
	isKey bool
}

func dumpKey(a *spec.Attr) string {
	if a.Oneof != nil {
		return "oneof:" + a.Oneof.Group
	}
	return akey(a)
}

// positions enumerates the fault positions reachable through known, non-null parents.
func positions(ms *spec.Msg, obj types.Object, tfPath, dumpPath string, steps []pstep, out *[]fpos) {
	for _, a := range ms.Live() {
		av, ok := obj.Attrs[a.Attr]
		if !ok || av == nil {
			continue
		}
		p := fpos{TFPath: tfPath + "." + a.Attr, DumpPath: dumpPath + "/" + dumpKey(a), Attr: a, steps: steps}
		st := append(append([]pstep(nil), steps...), pstep{attr: a.Attr, idx: -1})
		switch t := av.(type) {
		case types.Object:
			if !t.Null && !t.Unknown && a.Msg != nil {
				p.isObject = true
				if !a.Msg.Empty {
					p.childAttrs = len(a.Msg.Live())
					for _, c := range a.Msg.Live() {
						p.childPaths = append(p.childPaths, c.Path)
					}
				}
			}
		case types.List:
			p.isColl = !t.Null && !t.Unknown
		case types.Map:
			p.isColl = !t.Null && !t.Unknown
		}
		*out = append(*out, p)
		if absent(av) {
			continue
		}
		inner := dumpPath + "/" + dumpKey(a)
		if a.Oneof != nil {
			inner += "/value"
		}
		switch t := av.(type) {
		case types.Object:
			if a.Msg != nil {
				positions(a.Msg, t, p.TFPath, inner, st, out)
			}
		case types.List:
			for i, e := range t.Elems {
				ep := fpos{TFPath: fmt.Sprintf("%s[%d]", p.TFPath, i), DumpPath: p.DumpPath, Attr: a, steps: steps, isElem: true, elemIdx: i}
				*out = append(*out, ep)
				if eo, ok := e.(types.Object); ok && !absent(e) && a.Msg != nil {
					es := append(append([]pstep(nil), steps...), pstep{attr: a.Attr, idx: i})
					positions(a.Msg, eo, ep.TFPath, fmt.Sprintf("%s[%d]", inner, i), es, out)
				}
			}
		case types.Map:
			for _, k := range keysOf(t.Elems) {
				e := t.Elems[k]
				ep := fpos{TFPath: fmt.Sprintf("%s{%s}", p.TFPath, k), DumpPath: p.DumpPath, Attr: a, steps: steps, isElem: true, elemKey: k, elemIdx: -1}
				*out = append(*out, ep)
				if eo, ok := e.(types.Object); ok && !absent(e) && a.Msg != nil {
					es := append(append([]pstep(nil), steps...), pstep{attr: a.Attr, idx: -1, key: k, isKey: true})
					positions(a.Msg, eo, ep.TFPath, fmt.Sprintf("%s/k:%s", inner, k), es, out)
				}
			}
		}
	}
}

// mutate returns a copy of obj in which f was applied to the container object
// reached by steps.
func mutate(obj types.Object, steps []pstep, f func(o *types.Object)) types.Object {
	out := obj
	out.Attrs = make(map[string]attr.Value, len(obj.Attrs))
	for k, v := range obj.Attrs {
		out.Attrs[k] = v
	}
	if len(steps) == 0 {
		f(&out)
		return out
	}
	s := steps[0]
	switch t := out.Attrs[s.attr].(type) {
	case types.Object:
		out.Attrs[s.attr] = mutate(t, steps[1:], f)
	case types.List:
		el := append([]attr.Value(nil), t.Elems...)
		el[s.idx] = mutate(el[s.idx].(types.Object), steps[1:], f)
		t.Elems = el
		out.Attrs[s.attr] = t
	case types.Map:
		el := make(map[string]attr.Value, len(t.Elems))
		for k, v := range t.Elems {
			el[k] = v
		}
		el[s.key] = mutate(el[s.key].(types.Object), steps[1:], f)
		t.Elems = el
		out.Attrs[s.attr] = t
	}
	return out
}

// fault kinds and their expected diagnostics.
type fault struct {
	pos  fpos
	kind string
}

func (f fault) apply(obj types.Object) types.Object {
	return mutate(obj, f.pos.steps, func(o *types.Object) {
		name := f.pos.Attr.Attr
		setElem := func(v attr.Value) {
			switch t := o.Attrs[name].(type) {
			case types.List:
				el := append([]attr.Value(nil), t.Elems...)
				el[f.pos.elemIdx] = v
				t.Elems = el
				o.Attrs[name] = t
			case types.Map:
				el := make(map[string]attr.Value, len(t.Elems))
				for k, e := range t.Elems {
					el[k] = e
				}
				el[f.pos.elemKey] = v
				t.Elems = el
				o.Attrs[name] = t
			}
		}
		switch f.kind {
		case "delete":
			delete(o.Attrs, name)
		case "wrong-type":
			o.Attrs[name] = wrongValue{}
		case "nil-interface":
			o.Attrs[name] = nil
		case "attrs-nil":
			t := o.Attrs[name].(types.Object)
			t.Attrs = nil
			o.Attrs[name] = t
		case "elems-nil":
			switch t := o.Attrs[name].(type) {
			case types.List:
				t.Elems = nil
				o.Attrs[name] = t
			case types.Map:
				t.Elems = nil
				o.Attrs[name] = t
			}
		case "bare-null", "bare-unknown":
			null := f.kind == "bare-null"
			switch o.Attrs[name].(type) {
			case types.List:
				o.Attrs[name] = types.List{Null: null, Unknown: !null}
			case types.Map:
				o.Attrs[name] = types.Map{Null: null, Unknown: !null}
			case types.Object:
				o.Attrs[name] = types.Object{Null: null, Unknown: !null}
			}
		case "elem-wrong-type":
			setElem(wrongValue{})
		case "elem-nil-interface":
			setElem(nil)
		}
	})
}

// expected returns the number of error diagnostics and the path / phrase each must contain.
func (f fault) expected() (n int, path, phrase string) {
	a := f.pos.Attr
	switch f.kind {
	case "delete":
		return 1, a.Path, "is missing"
	case "wrong-type", "nil-interface":
		if a.Kind == spec.KCustom {
			return 0, "", ""
		}
		return 1, a.Path, "can not be converted"
	case "attrs-nil":
		return f.pos.childAttrs, a.Path + ".", "is missing"
	case "elems-nil":
		return 0, "", ""
	case "elem-wrong-type", "elem-nil-interface":
		return 1, a.Path, "can not be converted"
	}
	return 0, "", ""
}

func faultsAt(p fpos) []fault {
	if p.isElem {
		return []fault{{p, "elem-wrong-type"}, {p, "elem-nil-interface"}}
	}
	fs := []fault{{p, "delete"}, {p, "wrong-type"}, {p, "nil-interface"}}
	if p.isObject {
		fs = append(fs, fault{p, "attrs-nil"})
	}
	if p.isColl {
		fs = append(fs, fault{p, "elems-nil"})
	}
	return fs
}

func errorDiags(d diag.Diagnostics) []string {
	var r []string
	for _, e := range d {
		if e.Severity() == diag.SeverityError {
			r = append(r, e.Detail())
		}
	}
	return r
}

func under(path string, prefixes []string) bool {
	for _, p := range prefixes {
		if path == p || strings.HasPrefix(path, p+"/") || strings.HasPrefix(path, p+"[") {
			return true
		}
	}
	return false
}

// judgeFrom runs CopyFrom on the faulted object and applies the oracle.
func (x *Ctx) judgeFrom(in string, base types.Object, baseDump map[string]interface{}, fs []fault) {
	obj := base
	for _, f := range fs {
		obj = f.apply(obj)
	}
	kinds := make([]string, len(fs))
	for i, f := range fs {
		kinds[i] = f.kind
	}
	x.Eval(1)
	q := x.T.New()
	out := x.CopyFrom(obj, q)
	label := fs[0].kind
	cls := fs[0].pos.Attr.Class
	if fs[0].pos.isElem || len(fs[0].pos.steps) > 0 {
		cls += " (nested)"
	}
	if len(fs) > 1 {
		label, cls = "set", fmt.Sprintf("size=%d", len(fs))
	}
	detail := func() interface{} {
		var where []string
		for _, f := range fs {
			where = append(where, f.kind+"@"+f.pos.TFPath)
		}
		return map[string]interface{}{"faults": where, "object": dumpTF(base), "diags": errorDiags(out.Diags)}
	}
	if out.Panic != nil {
		x.Violate(fmt.Sprintf("from/panic/%s/%s/%s/%s", label, cls, panicClass(out.Panic), x.embedTypeClass()), in, "CopyFrom panicked on a malformed object", map[string]interface{}{"detail": detail(), "panic": panicDetail(out)})
		return
	}
	errs := errorDiags(out.Diags)
	// the framework drops diagnostics equal to one already present, so the expected
	// number is the number of distinct (path, kind) pairs
	wantKeys := map[string]bool{}
	var skip []string
	for _, f := range fs {
		n, path, phrase := f.expected()
		if f.kind == "attrs-nil" {
			for _, cp := range f.pos.childPaths {
				wantKeys[fmt.Sprintf("%s|%s|elem=false", cp, phrase)] = true
			}
		} else if n > 0 {
			// conversion diagnostics of an attribute and of its elements name different target types
			wantKeys[fmt.Sprintf("%s|%s|elem=%v", path, phrase, f.pos.isElem)] = true
		}
		skip = append(skip, f.pos.DumpPath)
		if n == 0 {
			continue
		}
		found := 0
		for _, e := range errs {
			if strings.Contains(e, path) && strings.Contains(e, phrase) {
				found++
			}
		}
		if found < 1 || (f.kind != "attrs-nil" && len(fs) == 1 && found != n) {
			x.Violate(fmt.Sprintf("from/diag-missing/%s/%s", f.kind, f.pos.Attr.Class), in,
				fmt.Sprintf("fault %s at %s: no error diagnostic naming %q (%s)", f.kind, f.pos.TFPath, path, phrase), detail())
		}
	}
	if want := len(wantKeys); len(errs) != want {
		x.Violate(fmt.Sprintf("from/diag-count/%s/%s", label, cls), in, fmt.Sprintf("%d error diagnostics, want %d", len(errs), want), detail())
	}
	// custom-type fields do not show in the dumps: a well-formed custom attribute at the root level is
	// "still copied" when its CopyFrom<S> hook is called with the address of the field
	mv := reflect.ValueOf(q).Elem()
	for _, a := range x.Root.Live() {
		if a.Kind != spec.KCustom || a.Oneof != nil {
			continue
		}
		if av, ok := obj.Attrs[a.Attr]; !ok || av == nil {
			continue
		}
		faulted := false
		for _, f := range fs {
			if f.pos.Attr == a || (len(f.pos.steps) == 0 && f.pos.Attr.Attr == a.Attr) {
				faulted = true
			}
		}
		fv, st := getField(mv, a)
		if faulted || st != fOK || !fv.CanAddr() {
			continue
		}
		x.Count("from-custom-attributes-judged", 1)
		called := false
		for _, c := range out.Hooks {
			if c.Hook == "CopyFrom" && c.Suffix == a.CustomSuffix && c.Ptr != nil && reflect.ValueOf(c.Ptr).Kind() == reflect.Ptr && reflect.ValueOf(c.Ptr).Pointer() == fv.Addr().Pointer() {
				called = true
			}
		}
		if !called {
			x.Violate(fmt.Sprintf("from/collateral-custom/%s", label), in, fmt.Sprintf("the well-formed custom-type attribute %s was not handed to CopyFrom%s", a.Path, a.CustomSuffix), detail())
			break
		}
	}
	// every field whose attribute is not under a fault equals the unfaulted result
	got := x.DumpStruct(q, dumpOpt{NF: true})
	for _, d := range DiffPaths(baseDump, got) {
		if !under(d, skip) {
			x.Violate(fmt.Sprintf("from/collateral/%s/%s", label, classAt(x.Root, d)), in, "a well-formed attribute was not copied: "+d, detail())
			break
		}
	}
}

// ---------------------------------------------------------------------------
// CopyTo with attribute types removed

// tlevel is one object-type level of the schema type tree.
type tlevel struct {
	chain  []*spec.Attr // attributes leading to the level (root: empty)
	ms     *spec.Msg
	visits int  // how often the source value visits this level
	elem   bool // level below a list or map (visited once per element)
}

func levelKey(chain []*spec.Attr) string {
	var b strings.Builder
	for _, a := range chain {
		b.WriteString(a.Path)
		b.WriteByte('>')
	}
	return b.String()
}

// visitLevels counts how often CopyTo visits each message level for source mv.
func (x *Ctx) visitLevels(ms *spec.Msg, mv reflect.Value, chain []*spec.Attr, elem bool, out map[string]*tlevel) {
	k := levelKey(chain)
	l, ok := out[k]
	if !ok {
		l = &tlevel{chain: append([]*spec.Attr(nil), chain...), ms: ms, elem: elem}
		out[k] = l
	}
	l.visits++
	for _, a := range ms.Live() {
		if a.Msg == nil || a.Kind == spec.KCustom {
			continue
		}
		f, st := getField(mv, a)
		if st != fOK {
			continue
		}
		sub := append(append([]*spec.Attr(nil), chain...), a)
		deref := func(v reflect.Value) (reflect.Value, bool) {
			if v.Kind() == reflect.Ptr {
				if v.IsNil() {
					return v, false
				}
				return v.Elem(), true
			}
			if !v.CanAddr() {
				c := reflect.New(v.Type()).Elem()
				c.Set(v)
				return c, true
			}
			return v, true
		}
		switch a.Kind {
		case spec.KObject:
			if v, ok := deref(f); ok {
				x.visitLevels(a.Msg, v, sub, elem, out)
			}
		case spec.KObjList:
			for i := 0; i < f.Len(); i++ {
				if v, ok := deref(f.Index(i)); ok {
					x.visitLevels(a.Msg, v, sub, true, out)
				}
			}
		case spec.KObjMap:
			it := f.MapRange()
			for it.Next() {
				if v, ok := deref(it.Value()); ok {
					x.visitLevels(a.Msg, v, sub, true, out)
				}
			}
		}
	}
}

// pruneType removes (or replaces) attribute name at the level reached by chain.
func pruneType(ot types.ObjectType, chain []*spec.Attr, name string, replace attr.Type) types.ObjectType {
	out := types.ObjectType{AttrTypes: make(map[string]attr.Type, len(ot.AttrTypes))}
	for k, v := range ot.AttrTypes {
		out.AttrTypes[k] = v
	}
	if len(chain) == 0 {
		if replace != nil {
			out.AttrTypes[name] = replace
		} else {
			delete(out.AttrTypes, name)
		}
		return out
	}
	a := chain[0]
	switch t := out.AttrTypes[a.Attr].(type) {
	case types.ObjectType:
		out.AttrTypes[a.Attr] = pruneType(t, chain[1:], name, replace)
	case types.ListType:
		if et, ok := t.ElemType.(types.ObjectType); ok {
			out.AttrTypes[a.Attr] = types.ListType{ElemType: pruneType(et, chain[1:], name, replace)}
		}
	case types.MapType:
		if et, ok := t.ElemType.(types.ObjectType); ok {
			out.AttrTypes[a.Attr] = types.MapType{ElemType: pruneType(et, chain[1:], name, replace)}
		}
	}
	return out
}

// dropTF removes the attribute at (chain, name) from a canonical object dump.
func dropTF(v interface{}, chain []*spec.Attr, name string) interface{} {
	m, ok := v.(map[string]interface{})
	if !ok {
		if l, ok := v.([]interface{}); ok {
			out := make([]interface{}, len(l))
			for i, e := range l {
				out[i] = dropTF(e, chain, name)
			}
			return out
		}
		return v
	}
	out := make(map[string]interface{}, len(m))
	for k, e := range m {
		out[k] = e
	}
	if m["@"] == "map" {
		for k, e := range m {
			if k != "@" {
				out[k] = dropTF(e, chain, name)
			}
		}
		return out
	}
	if len(chain) == 0 {
		delete(out, name)
		return out
	}
	if e, ok := out[chain[0].Attr]; ok {
		out[chain[0].Attr] = dropTF(e, chain[1:], name)
	}
	return out
}

func monC06(x *Ctx) {
	s, ok := x.schemaOrViolate()
	if !ok {
		return
	}
	ot := s.AttributeType().(types.ObjectType)
	nBase := x.Budget(2, 8)
	nSets := x.Budget(150, 1500)
	for b := 0; b < nBase; b++ {
		in := fmt.Sprintf("f%d", b)
		var base types.Object
		var err error
		if b%2 == 0 {
			base, err = x.KnownPlan(s, in, pMostlyKnown)
		} else {
			_, base, err = x.Plan(s, in, pMostlyKnown)
		}
		if err != nil {
			x.Res.Harness = append(x.Res.Harness, err.Error())
			return
		}
		q0 := x.T.New()
		out0 := x.CopyFrom(base, q0)
		if out0.Panic != nil || len(out0.errs()) > 0 {
			if out0.Panic != nil {
				x.Violate(panicFP("CopyFrom", out0)+"/"+x.embedTypeClass(), in, "CopyFrom panicked on the unfaulted conforming object", map[string]interface{}{"panic": panicDetail(out0)})
			} else {
				x.Violate("from/base-error", in, "CopyFrom reported errors on the unfaulted conforming object", map[string]interface{}{"diags": out0.errs()})
			}
			continue
		}
		baseDump := x.DumpStruct(q0, dumpOpt{NF: true})
		var pos []fpos
		positions(x.Root, base, x.Root.Name, "", nil, &pos)
		x.Count("from-fault-positions", len(pos))
		if b == 0 && len(pos) > 0 {
			x.Sample(map[string]interface{}{"case": x.Case.Name, "type": x.Root.Name, "input": in, "positions": len(pos), "example_fault": "delete@" + pos[len(pos)/2].TFPath, "object": dumpTF(base)})
		}
		// exhaustive single faults
		for _, p := range pos {
			for _, f := range faultsAt(p) {
				x.Distinct(fmt.Sprintf("from/%s/%s/%v", f.kind, p.Attr.Path, p.isElem))
				x.Count("from-single-faults", 1)
				x.judgeFrom(in+"/"+f.kind+"@"+p.TFPath, base, baseDump, []fault{f})
			}
		}
		// random fault sets (positions not nested in each other)
		for k := 0; k < nSets/nBase && len(pos) > 1; k++ {
			size := 2 + x.prf.Int(5, in, fmt.Sprint(k), "size")
			var fs []fault
			var taken []string
			for j := 0; j < size; j++ {
				p := pos[x.prf.Int(len(pos), in, fmt.Sprint(k, j), "pos")]
				clash := false
				for _, t := range taken {
					if strings.HasPrefix(p.TFPath, t) || strings.HasPrefix(t, p.TFPath) {
						clash = true
					}
				}
				if clash {
					continue
				}
				taken = append(taken, p.TFPath)
				cand := faultsAt(p)
				fs = append(fs, cand[x.prf.Int(len(cand), in, fmt.Sprint(k, j), "kind")])
			}
			if len(fs) < 2 {
				continue
			}
			x.Count("from-fault-sets", 1)
			x.judgeFrom(fmt.Sprintf("%s/set%d", in, k), base, baseDump, fs)
		}
	}
	// --- CopyTo: attribute types removed at any object level ----------------------
	for b := 0; b < nBase; b++ {
		in := fmt.Sprintf("t%d", b)
		src, _ := x.NewValue(in, mDense)
		clean := types.Object{AttrTypes: ot.AttrTypes}
		out0 := x.CopyTo(src, &clean)
		if out0.Panic != nil || len(out0.errs()) > 0 {
			if out0.Panic != nil {
				x.Violate(panicFP("CopyTo", out0)+"/"+x.nilEmbedClass(src), in, "CopyTo panicked on the unfaulted target", map[string]interface{}{"panic": panicDetail(out0)})
			}
			continue
		}
		cleanDump := dumpTF(clean)
		// a target that already holds values of another Go type, nil interfaces, nil Attrs / Elems
		// (at any depth): CopyTo must not panic
		{
			var pos []fpos
			positions(x.Root, clean, x.Root.Name, "", nil, &pos)
			for k := 0; k < 40 && len(pos) > 0; k++ {
				tgt := deepCopyTF(clean).(types.Object)
				n := 1 + x.prf.Int(4, in, fmt.Sprint(k), "wsize")
				var where []string
				for j := 0; j < n; j++ {
					p := pos[x.prf.Int(len(pos), in, fmt.Sprint(k, j), "wpos")]
					cand := faultsAt(p)
					if !p.isElem && (p.isObject || p.isColl) {
						// hand-built prior values that carry no type information at all
						cand = append(cand, fault{p, "bare-null"}, fault{p, "bare-unknown"})
					}
					f := cand[x.prf.Int(len(cand), in, fmt.Sprint(k, j), "wkind")]
					if f.kind == "delete" {
						continue
					}
					func() {
						defer func() { recover() }() // a position may have vanished under an earlier fault
						tgt = f.apply(tgt)
						where = append(where, f.kind+"@"+p.TFPath)
					}()
				}
				x.Eval(1)
				x.Count("to-malformed-existing-values", 1)
				out := x.CopyTo(src, &tgt)
				if out.Panic != nil {
					x.Violate(fmt.Sprintf("to/panic/malformed-existing-value/%s/%s", panicClass(out.Panic), x.nilEmbedClass(src)), fmt.Sprintf("%s/w%d", in, k),
						"CopyTo panicked on a target that holds malformed values", map[string]interface{}{"faults": where, "panic": panicDetail(out)})
				}
			}
		}
		levels := map[string]*tlevel{}
		x.visitLevels(x.Root, reflect.ValueOf(src).Elem(), nil, false, levels)
		keys := make([]string, 0, len(levels))
		for k := range levels {
			keys = append(keys, k)
		}
		sort.Strings(keys)
		// --- sets of removed attribute types ------------------------------------
		type tpos struct {
			l *tlevel
			a *spec.Attr
		}
		var tps []tpos
		for _, k := range keys {
			for _, a := range levels[k].ms.Live() {
				tps = append(tps, tpos{levels[k], a})
			}
		}
		for k := 0; k < nSets/nBase/3 && len(tps) > 2; k++ {
			size := 2 + x.prf.Int(4, in, fmt.Sprint(k), "tsize")
			var chosen []tpos
			for j := 0; j < size; j++ {
				c := tps[x.prf.Int(len(tps), in, fmt.Sprint(k, j), "tpos")]
				clash := false
				for _, o := range chosen {
					if o.a.Path == c.a.Path {
						clash = true
					}
					for _, ca := range c.l.chain {
						if ca.Path == o.a.Path {
							clash = true
						}
					}
					for _, oa := range o.l.chain {
						if oa.Path == c.a.Path {
							clash = true
						}
					}
				}
				if !clash {
					chosen = append(chosen, c)
				}
			}
			if len(chosen) < 2 {
				continue
			}
			fot := ot
			wantDump := cleanDump
			var names []string
			for _, c := range chosen {
				fot = pruneType(fot, c.l.chain, c.a.Attr, nil)
				wantDump = dropTF(wantDump, c.l.chain, c.a.Attr)
				names = append(names, c.a.Path)
			}
			obj := types.Object{AttrTypes: fot.AttrTypes}
			x.Eval(1)
			x.Count("to-type-fault-sets", 1)
			out := x.CopyTo(src, &obj)
			id := fmt.Sprintf("%s/tset%d", in, k)
			detail := func() interface{} {
				return map[string]interface{}{"removed": names, "diags": errorDiags(out.Diags)}
			}
			if out.Panic != nil {
				x.Violate(fmt.Sprintf("to/panic/type-delete-set/%s/%s", panicClass(out.Panic), x.nilEmbedClass(src)), id, "CopyTo panicked on a target with several missing attribute types", map[string]interface{}{"detail": detail(), "panic": panicDetail(out)})
				continue
			}
			errs := errorDiags(out.Diags)
			for _, c := range chosen {
				named := false
				for _, e := range errs {
					if strings.Contains(e, c.a.Path) && strings.Contains(e, "is missing") {
						named = true
					}
				}
				if !named {
					x.Violate("to/diag-missing/set/"+c.a.Class, id, fmt.Sprintf("no diagnostic names the missing attribute type of %s", c.a.Path), detail())
				}
			}
			// equal diagnostics are merged by the framework: one per removed attribute type
			if len(errs) != len(chosen) {
				x.Violate(fmt.Sprintf("to/diag-count/set/size=%d", len(chosen)), id, fmt.Sprintf("%d error diagnostics, want %d", len(errs), len(chosen)), detail())
			}
			got := dumpTF(obj)
			for _, c := range chosen {
				got = dropTF(got, c.l.chain, c.a.Attr)
			}
			if d := DiffPaths(wantDump, got); len(d) > 0 {
				x.Violate("to/collateral/set", id, fmt.Sprintf("other attributes differ from the unfaulted run: %v", d), detail())
			}
		}
		// --- a target that is already filled (the result of the unfaulted call) loses the type of one of its
		// root attributes: the value it holds is no substitute for the type (root level only: a nested object
		// that is kept from the target legitimately brings its own attribute types)
		{
			roots := x.Root.Live()
			for k := 0; k < 6 && len(roots) > 0; k++ {
				a := roots[x.prf.Int(len(roots), in, fmt.Sprint(k), "filled-tpos")]
				tgt := deepCopyTF(clean).(types.Object)
				if _, ok := tgt.Attrs[a.Attr]; !ok {
					continue
				}
				tgt.AttrTypes = pruneType(ot, nil, a.Attr, nil).AttrTypes
				x.Eval(1)
				x.Count("to-type-faults-on-filled-target", 1)
				out := x.CopyTo(src, &tgt)
				id := fmt.Sprintf("%s/filled%d", in, k)
				if out.Panic != nil {
					x.Violate(fmt.Sprintf("to/panic/type-delete-filled/%s/%s", panicClass(out.Panic), x.nilEmbedClass(src)), id, "CopyTo panicked on a filled target with a missing attribute type", map[string]interface{}{"removed": a.Path, "panic": panicDetail(out)})
					continue
				}
				named := false
				for _, e := range errorDiags(out.Diags) {
					if strings.Contains(e, a.Path) && strings.Contains(e, "is missing") {
						named = true
					}
				}
				if !named {
					x.Violate("to/diag-missing/filled-target/"+a.Class, id, fmt.Sprintf("no diagnostic names the missing attribute type of %s (the target already holds a value for it)", a.Path), map[string]interface{}{"removed": a.Path, "diags": errorDiags(out.Diags)})
				}
			}
		}
		// --- a whole level without attribute types (nil AttrTypes) -------------------
		for _, k := range keys {
			l := levels[k]
			live := l.ms.Live()
			if len(live) == 0 {
				continue
			}
			fot := ot
			for _, a := range live {
				fot = pruneType(fot, l.chain, a.Attr, nil)
			}
			want := len(live)
			if l.ms.Placeholder {
				// the flattened placeholder of an embedded message without fields is an attribute of the level too
				fot = pruneType(fot, l.chain, "active", nil)
				want++
			}
			obj := types.Object{AttrTypes: fot.AttrTypes}
			if len(l.chain) == 0 {
				obj.AttrTypes = nil
			}
			x.Eval(1)
			x.Count("to-level-without-types", 1)
			out := x.CopyTo(src, &obj)
			id := fmt.Sprintf("%s/no-types@%s", in, l.ms.Path)
			if out.Panic != nil {
				x.Violate(fmt.Sprintf("to/panic/no-attr-types/%s/%s", panicClass(out.Panic), x.nilEmbedClass(src)), id, "CopyTo panicked on a target level without attribute types", map[string]interface{}{"panic": panicDetail(out)})
				continue
			}
			errs := errorDiags(out.Diags)
			missing := 0
			for _, a := range live {
				for _, e := range errs {
					if strings.Contains(e, a.Path) && strings.Contains(e, "is missing") {
						missing++
						break
					}
				}
			}
			if l.ms.Placeholder {
				for _, e := range errs {
					if strings.Contains(e, l.ms.Path+".active") && strings.Contains(e, "is missing") {
						missing++
						break
					}
				}
			}
			if missing != want || len(errs) != want {
				x.Violate("to/diag-count/no-attr-types", id, fmt.Sprintf("%d error diagnostics (%d of %d attributes named), want one per attribute of %s", len(errs), missing, want, l.ms.Path),
					map[string]interface{}{"diags": errs})
			}
		}
		// --- the placeholder attribute of a message without fields is written too -----------
		for _, k := range keys {
			l := levels[k]
			if !l.ms.Placeholder {
				continue
			}
			x.Eval(1)
			x.Count("to-placeholder-type-faults", 1)
			fot := pruneType(ot, l.chain, "active", nil)
			obj := types.Object{AttrTypes: fot.AttrTypes}
			out := x.CopyTo(src, &obj)
			id := fmt.Sprintf("%s/type-delete@%s.active", in, l.ms.Path)
			if out.Panic != nil {
				x.Violate(fmt.Sprintf("to/panic/type-delete/placeholder/%s/%s", panicClass(out.Panic), x.nilEmbedClass(src)), id, "CopyTo panicked on a target without the placeholder's attribute type", map[string]interface{}{"panic": panicDetail(out)})
				continue
			}
			errs := errorDiags(out.Diags)
			named := 0
			for _, e := range errs {
				if strings.Contains(e, l.ms.Path+".active") && strings.Contains(e, "is missing") {
					named++
				}
			}
			if named < 1 || len(errs) != named {
				x.Violate("to/diag-count/placeholder", id, fmt.Sprintf("%d error diagnostics (%d naming %s.active), want one per visit", len(errs), named, l.ms.Path), map[string]interface{}{"diags": errs})
			}
		}
		for _, k := range keys {
			l := levels[k]
			for _, a := range l.ms.Live() {
				for _, kind := range []string{"type-delete", "type-wrong"} {
					var repl attr.Type
					if kind == "type-wrong" {
						repl = types.NumberType
					}
					x.Eval(1)
					x.Count("to-type-faults", 1)
					x.Distinct(fmt.Sprintf("to/%s/%s", kind, a.Path))
					fot := pruneType(ot, l.chain, a.Attr, repl)
					obj := types.Object{AttrTypes: fot.AttrTypes}
					out := x.CopyTo(src, &obj)
					id := fmt.Sprintf("%s/%s@%s", in, kind, a.Path)
					detail := func() interface{} {
						return map[string]interface{}{"fault": kind + "@" + a.Path, "visits": l.visits, "diags": errorDiags(out.Diags), "struct": x.DumpStruct(src, dumpOpt{})}
					}
					if out.Panic != nil {
						x.Violate(fmt.Sprintf("to/panic/%s/%s/%s/%s", kind, a.Class, panicClass(out.Panic), x.nilEmbedClass(src)), id, "CopyTo panicked on a target with a missing / wrong attribute type", map[string]interface{}{"detail": detail(), "panic": panicDetail(out)})
						continue
					}
					if kind != "type-delete" {
						continue
					}
					errs := errorDiags(out.Diags)
					named := 0
					for _, e := range errs {
						if strings.Contains(e, a.Path) && strings.Contains(e, "is missing") {
							named++
						}
					}
					lo, hi := l.visits, l.visits
					if l.elem && lo > 1 {
						lo = 1
					}
					if named < lo || named > hi || len(errs) != named {
						x.Violate(fmt.Sprintf("to/diag-count/%s/elem-level=%v", a.Class, l.elem), id,
							fmt.Sprintf("%d error diagnostics (%d naming %s), want between %d and %d", len(errs), named, a.Path, lo, hi), detail())
					}
					// all other attributes are still written
					if d := DiffPaths(dropTF(cleanDump, l.chain, a.Attr), dropTF(dumpTF(obj), l.chain, a.Attr)); len(d) > 0 {
						x.Violate("to/collateral/"+a.Class, id, fmt.Sprintf("other attributes differ from the unfaulted run: %v", d), detail())
					}
				}
			}
		}
	}
}

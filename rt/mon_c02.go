package rt

import (
	"fmt"
	"reflect"
	"sort"
	"strings"
	"time"

	"github.com/hashicorp/terraform-plugin-framework/attr"
	"github.com/hashicorp/terraform-plugin-framework/tfsdk"
	"github.com/hashicorp/terraform-plugin-framework/types"

	"verif/rt/spec"
	"verif/rt/tfx"
)

func init() { monitors["C02"] = monC02 }

// expectLeafType is the documented type table of C02.
func (x *Ctx) expectLeafType(a *spec.Attr) attr.Type {
	if a.Alt {
		switch a.Leaf {
		case spec.LInt64:
			return tfx.AltInt64Type
		case spec.LBool:
			return tfx.AltBoolType
		case spec.LString:
			return tfx.AltStringType
		}
	}
	switch a.Leaf {
	case spec.LInt64:
		return types.Int64Type
	case spec.LFloat64:
		return types.Float64Type
	case spec.LBool:
		return types.BoolType
	case spec.LString:
		return types.StringType
	case spec.LTime:
		if x.Case.TimeCtor {
			return tfx.UseRFC3339Time()
		}
		return tfx.TimeType{}
	case spec.LDuration:
		if x.Case.DurCtor {
			return tfx.UseDuration()
		}
		return tfx.DurationType{}
	}
	return nil
}

func injectedType(t string) attr.Type {
	switch t {
	case "string":
		return types.StringType
	case "int64":
		return types.Int64Type
	case "bool":
		return types.BoolType
	case "float64":
		return types.Float64Type
	}
	return nil
}

// schemaStructure compares one level of the run-time schema with the spec.
func (x *Ctx) schemaStructure(ms *spec.Msg, attrs map[string]tfsdk.Attribute, path string, out *[]problem) {
	want := map[string]bool{}
	for _, a := range ms.Live() {
		want[a.Attr] = true
	}
	for _, i := range ms.Injected {
		want[i.Name] = true
	}
	if ms.Placeholder {
		want["active"] = true
	}
	var names []string
	for n := range attrs {
		names = append(names, n)
	}
	sort.Strings(names)
	for _, n := range names {
		if !want[n] {
			*out = append(*out, problem{fp: "schema/unexpected-attribute", path: path + "." + n, msg: "attribute not promised by the model (wrong name, unflattened embed, excluded field ...)"})
		}
	}
	for _, a := range ms.Live() {
		p := path + "." + a.Attr
		sa, ok := attrs[a.Attr]
		if !ok {
			*out = append(*out, problem{fp: "schema/missing-attribute/" + a.Class, path: p, msg: fmt.Sprintf("no attribute %q for field %s (have %v)", a.Attr, a.Path, names)})
			continue
		}
		x.Count("schema-attributes-judged", 1)
		switch a.Kind {
		case spec.KCustom:
			if sa.MarkdownDescription != "hook:"+a.CustomSuffix {
				*out = append(*out, problem{fp: "schema/custom-not-from-hook", path: p, msg: "custom attribute is not the result of GenSchema" + a.CustomSuffix})
			}
		case spec.KScalar, spec.KList, spec.KMap:
			var wantT attr.Type = x.expectLeafType(a)
			if a.Kind == spec.KList {
				wantT = types.ListType{ElemType: wantT}
			}
			if a.Kind == spec.KMap {
				wantT = types.MapType{ElemType: wantT}
			}
			if sa.Attributes != nil || sa.Type == nil || !safeTypeEqual(sa.Type, wantT) {
				*out = append(*out, problem{fp: "schema/type/" + a.Class, path: p, msg: fmt.Sprintf("schema type %v, documented type %v", sa.Type, wantT)})
			}
		case spec.KObject, spec.KObjList, spec.KObjMap:
			wantMode := map[string]tfsdk.NestingMode{spec.KObject: tfsdk.NestingModeSingle, spec.KObjList: tfsdk.NestingModeList, spec.KObjMap: tfsdk.NestingModeMap}[a.Kind]
			if sa.Attributes == nil || sa.Type != nil {
				*out = append(*out, problem{fp: "schema/not-nested/" + a.Class, path: p, msg: "message field is not rendered with nested attributes"})
				continue
			}
			if sa.Attributes.GetNestingMode() != wantMode {
				*out = append(*out, problem{fp: "schema/nesting-mode/" + a.Class, path: p, msg: fmt.Sprintf("nesting mode %v, want %v", sa.Attributes.GetNestingMode(), wantMode)})
				continue
			}
			x.schemaStructure(a.Msg, sa.Attributes.GetAttributes(), p, out)
		}
	}
	for _, i := range ms.Injected {
		sa, ok := attrs[i.Name]
		if !ok {
			*out = append(*out, problem{fp: "schema/missing-injected", path: path + "." + i.Name, msg: "injected attribute missing"})
			continue
		}
		if wt := injectedType(i.Type); wt != nil && !safeTypeEqual(sa.Type, wt) {
			*out = append(*out, problem{fp: "schema/injected-type", path: path + "." + i.Name, msg: fmt.Sprintf("injected type %v, want %v", sa.Type, wt)})
		}
	}
	if ms.Placeholder {
		if sa, ok := attrs["active"]; !ok || !safeTypeEqual(sa.Type, types.BoolType) {
			*out = append(*out, problem{fp: "schema/placeholder", path: path + ".active", msg: "empty message is not represented by a boolean attribute `active`"})
		}
	}
}

// ---------------------------------------------------------------------------
// behavioural probe

// probeStep descends into one attribute on the way to the probed leaf.
type probeStep struct {
	a *spec.Attr
}

// probeTarget is one leaf field with the chain of message attributes leading to it.
type probeTarget struct {
	chain []*spec.Attr
	leaf  *spec.Attr
}

func (x *Ctx) probeTargets(ms *spec.Msg, chain []*spec.Attr, depth int, out *[]probeTarget) {
	for _, a := range ms.Live() {
		switch a.Kind {
		case spec.KScalar, spec.KList, spec.KMap:
			*out = append(*out, probeTarget{chain: append([]*spec.Attr(nil), chain...), leaf: a})
		case spec.KObject, spec.KObjList, spec.KObjMap:
			if depth < 6 {
				x.probeTargets(a.Msg, append(append([]*spec.Attr(nil), chain...), a), depth+1, out)
			}
		}
	}
}

const probeKey = "k"

// materialise builds the struct with all ancestors of the target (and all embed
// pointers on the way) allocated; with set, the distinctive value is stored.
func (x *Ctx) materialise(t probeTarget, set bool) interface{} {
	p := x.T.New()
	mv := reflect.ValueOf(p).Elem()
	for _, a := range t.chain {
		ft := x.fieldType(mv.Type(), a)
		var next reflect.Value
		newMsg := func(et reflect.Type) (stored, inner reflect.Value) {
			if et.Kind() == reflect.Ptr {
				pv := reflect.New(et.Elem())
				return pv, pv.Elem()
			}
			v := reflect.New(et)
			return v.Elem(), v.Elem()
		}
		switch a.Kind {
		case spec.KObject:
			if ft.Kind() == reflect.Ptr {
				pv := reflect.New(ft.Elem())
				x.store(mv, a, pv)
				next = pv.Elem()
			} else {
				cont, _ := container(mv, a, true)
				if a.Oneof != nil {
					panic("HARNESS: by-value message in oneof")
				}
				next = cont.FieldByName(a.GoName)
			}
		case spec.KObjList:
			s := reflect.MakeSlice(ft, 1, 1)
			if ft.Elem().Kind() == reflect.Ptr {
				pv := reflect.New(ft.Elem().Elem())
				s.Index(0).Set(pv)
				next = pv.Elem()
			} else {
				next = s.Index(0)
			}
			x.store(mv, a, s)
		case spec.KObjMap:
			m := reflect.MakeMap(ft)
			if ft.Elem().Kind() == reflect.Ptr {
				pv := reflect.New(ft.Elem().Elem())
				m.SetMapIndex(reflect.ValueOf(probeKey), pv)
				next = pv.Elem()
				x.store(mv, a, m)
			} else {
				// by-value map element: build the element first, store it at the end
				_, inner := newMsg(ft.Elem())
				x.store(mv, a, m)
				defer func(m, inner reflect.Value) { m.SetMapIndex(reflect.ValueOf(probeKey), inner) }(m, inner)
				next = inner
			}
		}
		mv = next
	}
	// allocate the embeds on the way to the leaf
	container(mv, t.leaf, true)
	if set {
		ft := x.fieldType(mv.Type(), t.leaf)
		x.store(mv, t.leaf, distinctive(ft, t.leaf))
	}
	return p
}

// store assigns val to the field of a inside mv (oneof aware).
func (x *Ctx) store(mv reflect.Value, a *spec.Attr, val reflect.Value) {
	if a.Oneof != nil {
		x.setOneof(mv, a, val)
		return
	}
	cont, _ := container(mv, a, true)
	cont.FieldByName(a.GoName).Set(val)
}

var probeTime = time.Date(2021, 3, 4, 5, 6, 7, 891011, time.UTC)

// distinctive returns a distinctive non-zero value for the field type.
func distinctive(ft reflect.Type, a *spec.Attr) reflect.Value {
	leaf := func(t reflect.Type) reflect.Value {
		ptr := t.Kind() == reflect.Ptr
		if ptr {
			t = t.Elem()
		}
		v := reflect.New(t).Elem()
		switch {
		case t == timeType:
			v.Set(reflect.ValueOf(probeTime))
		case t.Kind() == reflect.Bool:
			v.SetBool(true)
		case t.Kind() == reflect.String:
			v.SetString("probe-value")
		case t.Kind() == reflect.Slice:
			v.Set(reflect.ValueOf([]byte("probe-value")).Convert(t))
		case t.Kind() == reflect.Float32 || t.Kind() == reflect.Float64:
			v.SetFloat(42.5)
		case t.Kind() == reflect.Uint32 || t.Kind() == reflect.Uint64 || t.Kind() == reflect.Uint:
			v.SetUint(42)
		default:
			n := int64(42)
			if len(a.EnumNumbers) > 1 {
				n = int64(a.EnumNumbers[len(a.EnumNumbers)-1])
			}
			if a.Leaf == spec.LDuration {
				n = int64(90 * time.Second)
			}
			v.SetInt(n)
		}
		if ptr {
			p := reflect.New(t)
			p.Elem().Set(v)
			return p
		}
		return v
	}
	switch a.Kind {
	case spec.KList:
		s := reflect.MakeSlice(ft, 1, 1)
		s.Index(0).Set(leaf(ft.Elem()))
		return s
	case spec.KMap:
		m := reflect.MakeMap(ft)
		m.SetMapIndex(reflect.ValueOf(probeKey).Convert(ft.Key()), leaf(ft.Elem()))
		return m
	}
	return leaf(ft)
}

// expectedTF is the canonical Terraform rendering of the distinctive value.
func expectedTF(a *spec.Attr) interface{} {
	var leaf interface{}
	switch a.Leaf {
	case spec.LBool:
		leaf = "b:true"
	case spec.LString:
		leaf = `s:"probe-value"`
	case spec.LFloat64:
		leaf = canonFloat(42.5, 64)
	case spec.LTime:
		leaf = canonTime(probeTime)
	case spec.LDuration:
		leaf = fmt.Sprintf("d:%d", int64(90*time.Second))
	default:
		n := int64(42)
		if len(a.EnumNumbers) > 1 {
			n = int64(a.EnumNumbers[len(a.EnumNumbers)-1])
		}
		leaf = fmt.Sprintf("i:%d", n)
	}
	switch a.Kind {
	case spec.KList:
		return []interface{}{leaf}
	case spec.KMap:
		return map[string]interface{}{"@": "map", "k:" + probeKey: leaf}
	}
	return leaf
}

// tfPathOf is the path of the target inside a dumpTF tree.
func tfPathOf(t probeTarget) string {
	var b strings.Builder
	for _, a := range t.chain {
		b.WriteString("/" + a.Attr)
		switch a.Kind {
		case spec.KObjList:
			b.WriteString("[0]")
		case spec.KObjMap:
			b.WriteString("/k:" + probeKey)
		}
	}
	b.WriteString("/" + t.leaf.Attr)
	return b.String()
}

// structPathOf is the path of the target inside a struct dump.
func structPathOf(t probeTarget) string {
	var b strings.Builder
	for _, a := range t.chain {
		b.WriteString("/" + dumpKey(a))
		if a.Oneof != nil {
			b.WriteString("/value")
		}
		switch a.Kind {
		case spec.KObjList:
			b.WriteString("[0]")
		case spec.KObjMap:
			b.WriteString("/k:" + probeKey)
		}
	}
	b.WriteString("/" + dumpKey(t.leaf))
	return b.String()
}

func nodeAt(v interface{}, path string) (interface{}, bool) {
	if path == "" {
		return v, true
	}
	segs := strings.Split(strings.TrimPrefix(path, "/"), "/")
	cur := v
	for _, seg := range segs {
		name, idx := trimIndex(seg)
		m, ok := cur.(map[string]interface{})
		if !ok {
			return nil, false
		}
		cur, ok = m[name]
		if !ok {
			return nil, false
		}
		if idx >= 0 {
			l, ok := cur.([]interface{})
			if !ok || idx >= len(l) {
				return nil, false
			}
			cur = l[idx]
		}
	}
	return cur, true
}

// pstepsOf converts the chain into mutate steps.
func pstepsOf(t probeTarget) []pstep {
	var st []pstep
	for _, a := range t.chain {
		switch a.Kind {
		case spec.KObjList:
			st = append(st, pstep{attr: a.Attr, idx: 0})
		case spec.KObjMap:
			st = append(st, pstep{attr: a.Attr, idx: -1, key: probeKey, isKey: true})
		default:
			st = append(st, pstep{attr: a.Attr, idx: -1})
		}
	}
	return st
}

// attrAt fetches the attr.Value of the target from an object.
func attrAt(obj types.Object, t probeTarget) (attr.Value, bool) {
	cur := obj
	for _, a := range t.chain {
		v, ok := cur.Attrs[a.Attr]
		if !ok {
			return nil, false
		}
		switch tv := v.(type) {
		case types.Object:
			cur = tv
		case types.List:
			if len(tv.Elems) < 1 {
				return nil, false
			}
			o, ok := tv.Elems[0].(types.Object)
			if !ok {
				return nil, false
			}
			cur = o
		case types.Map:
			o, ok := tv.Elems[probeKey].(types.Object)
			if !ok {
				return nil, false
			}
			cur = o
		default:
			return nil, false
		}
	}
	v, ok := cur.Attrs[t.leaf.Attr]
	return v, ok
}

func monC02(x *Ctx) {
	s, ok := x.schemaOrViolate()
	if !ok {
		return
	}
	// structure
	var probs []problem
	x.Eval(1)
	x.schemaStructure(x.Root, s.Attributes, x.Root.Name, &probs)
	for _, pr := range probs {
		x.Violate(pr.fp, "schema", pr.path+": "+pr.msg, nil)
	}
	empty, _ := emptyObject(s)
	// behaviour
	var targets []probeTarget
	x.probeTargets(x.Root, nil, 0, &targets)
	for ti, t := range targets {
		in := "probe:" + t.leaf.Path
		var base, probe interface{}
		func() {
			defer func() {
				if r := recover(); r != nil {
					x.Res.Harness = append(x.Res.Harness, fmt.Sprintf("materialise %s: %v", t.leaf.Path, r))
				}
			}()
			base = x.materialise(t, false)
			probe = x.materialise(t, true)
		}()
		if base == nil || probe == nil {
			continue
		}
		x.Eval(2)
		x.Count("fields-probed", 1)
		x.Distinct(t.leaf.Path + "#" + fmt.Sprint(len(t.chain)))
		objB, objX := empty, empty
		objB.Attrs, objX.Attrs = nil, nil
		oB := x.CopyTo(base, &objB)
		oX := x.CopyTo(probe, &objX)
		if oB.Panic != nil || oX.Panic != nil {
			o := oB
			if oX.Panic != nil {
				o = oX
			}
			x.Violate(panicFP("CopyTo", o)+"/"+x.nilEmbedClass(probe), in, "CopyTo panicked on a probe value", map[string]interface{}{"panic": panicDetail(o)})
			continue
		}
		dB, dX := dumpTF(objB), dumpTF(objX)
		wantPath := tfPathOf(t)
		diffs := DiffPaths(dB, dX)
		if ti == 1 {
			x.Sample(map[string]interface{}{"case": x.Case.Name, "type": x.Root.Name, "field": t.leaf.Path, "class": t.leaf.Class, "expected_attribute_path": wantPath, "observed_diff": diffs})
		}
		if len(diffs) != 1 || diffs[0] != wantPath {
			x.Violate("to/wrong-attribute/"+t.leaf.Class, in, fmt.Sprintf("writing %s changed attributes %v, want exactly %s", t.leaf.Path, diffs, wantPath),
				map[string]interface{}{"base": dB, "probe": dX})
			continue
		}
		got, _ := nodeAt(dX, wantPath)
		if want := expectedTF(t.leaf); !reflect.DeepEqual(got, want) {
			x.Violate("to/wrong-value/"+t.leaf.Class, in, fmt.Sprintf("%s carries %v, want %v", wantPath, got, want), nil)
			continue
		}
		// converse: the distinctive attribute value written into the base object changes exactly the field
		av, ok := attrAt(objX, t)
		if !ok {
			continue
		}
		objM := mutate(objB, pstepsOf(t), func(o *types.Object) { o.Attrs[t.leaf.Attr] = av })
		qB, qM := x.T.New(), x.T.New()
		x.Eval(2)
		fB := x.CopyFrom(objB, qB)
		fM := x.CopyFrom(objM, qM)
		if fB.Panic != nil || fM.Panic != nil {
			o := fB
			if fM.Panic != nil {
				o = fM
			}
			x.Violate(panicFP("CopyFrom", o)+"/"+x.embedTypeClass(), in, "CopyFrom panicked on a probe object", map[string]interface{}{"panic": panicDetail(o)})
			continue
		}
		sB, sM := x.DumpStruct(qB, dumpOpt{NF: true}), x.DumpStruct(qM, dumpOpt{NF: true})
		wantS := structPathOf(t)
		sd := DiffPaths(sB, sM)
		okDiff := len(sd) >= 1
		for _, d := range sd {
			inField := d == wantS || strings.HasPrefix(d, wantS+"/") || strings.HasPrefix(d, wantS+"[")
			ancestor := strings.HasPrefix(wantS, d+"/") || strings.HasPrefix(wantS, d+"[")
			if !inField && !ancestor {
				okDiff = false
			}
		}
		if !okDiff {
			x.Violate("from/wrong-field/"+t.leaf.Class, in, fmt.Sprintf("reading attribute %s changed fields %v, want exactly %s", wantPath, sd, wantS),
				map[string]interface{}{"base": sB, "probe": sM})
			continue
		}
		// the field carries the distinctive value again
		want := x.DumpStruct(probe, dumpOpt{NF: true})
		if !reflect.DeepEqual(want, sM) {
			x.Violate("from/wrong-value/"+t.leaf.Class, in, fmt.Sprintf("decoding the probe object differs from the probe struct at %v", DiffPaths(want, sM)), nil)
			continue
		}
		// ... also when the struct read into already holds the same shape under OTHER map keys (a renamed key on
		// refresh): the field corresponds to the attribute, so no entry the attribute lacks may stay behind
		var tgt interface{}
		func() {
			defer func() { recover() }()
			tgt = x.materialise(t, true)
		}()
		if tgt != nil && rekeyMaps(reflect.ValueOf(tgt)) > 0 {
			x.Eval(1)
			x.Count("reads-into-a-target-holding-other-map-keys", 1)
			fR := x.CopyFrom(objM, tgt)
			if fR.Panic != nil {
				x.Violate(panicFP("CopyFrom", fR)+"/"+x.embedTypeClass(), in, "CopyFrom panicked reading a probe object into a filled target", map[string]interface{}{"panic": panicDetail(fR)})
				continue
			}
			if sR := x.DumpStruct(tgt, dumpOpt{NF: true}); !reflect.DeepEqual(want, sR) {
				x.Violate("from/stale-target/"+t.leaf.Class, in, fmt.Sprintf("decoding the probe object into a struct that held the same shape under other map keys differs from the probe struct at %v", DiffPaths(want, sR)),
					map[string]interface{}{"want": want, "got": sR})
			}
		}
	}
}

// rekeyMaps renames every key of every string-keyed map reachable from v (in place) and returns how many
// non-empty maps it found.
func rekeyMaps(v reflect.Value) int {
	n := 0
	switch v.Kind() {
	case reflect.Ptr, reflect.Interface:
		if !v.IsNil() {
			n += rekeyMaps(v.Elem())
		}
	case reflect.Struct:
		if v.Type() == timeType {
			return 0
		}
		for i := 0; i < v.NumField(); i++ {
			if v.Type().Field(i).PkgPath == "" {
				n += rekeyMaps(v.Field(i))
			}
		}
	case reflect.Slice:
		if v.Type().Elem().Kind() == reflect.Uint8 {
			return 0
		}
		for i := 0; i < v.Len(); i++ {
			n += rekeyMaps(v.Index(i))
		}
	case reflect.Map:
		if v.Type().Key().Kind() != reflect.String || v.Len() == 0 {
			return 0
		}
		n++
		for _, k := range v.MapKeys() {
			val := v.MapIndex(k)
			cp := reflect.New(v.Type().Elem()).Elem()
			cp.Set(val)
			n += rekeyMaps(cp)
			v.SetMapIndex(k, reflect.Value{})
			nk := reflect.New(v.Type().Key()).Elem()
			nk.SetString("earlier-" + k.String())
			v.SetMapIndex(nk, cp)
		}
	}
	return n
}

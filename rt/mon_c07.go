package rt

import (
	"fmt"
	"reflect"

	"github.com/hashicorp/terraform-plugin-framework/attr"
	"github.com/hashicorp/terraform-plugin-framework/types"

	"verif/rt/spec"
)

func init() { monitors["C07"] = monC07 }

// hasOneof reports whether the message tree contains a oneof group.
func hasOneof(ms *spec.Msg) bool {
	for _, a := range ms.Live() {
		if a.Oneof != nil {
			return true
		}
		if a.Msg != nil && hasOneof(a.Msg) {
			return true
		}
	}
	return false
}

// flipInactiveUnknown turns some null branch attributes unknown (typed), so that
// "others null or unknown" is exercised.
func (x *Ctx) flipInactiveUnknown(ms *spec.Msg, obj types.Object, in, path string) types.Object {
	out := obj
	out.Attrs = make(map[string]attr.Value, len(obj.Attrs))
	for k, v := range obj.Attrs {
		out.Attrs[k] = v
	}
	for _, a := range ms.Live() {
		v := out.Attrs[a.Attr]
		if v == nil {
			continue
		}
		p := path + "/" + akey(a)
		if a.Oneof != nil && v.IsNull() && x.prf.Int(3, in, p, "flip") == 0 {
			out.Attrs[a.Attr] = setFlags(v, false, true)
			continue
		}
		if a.Msg == nil || absent(v) {
			continue
		}
		switch t := v.(type) {
		case types.Object:
			out.Attrs[a.Attr] = x.flipInactiveUnknown(a.Msg, t, in, p)
		case types.List:
			el := make([]attr.Value, len(t.Elems))
			for i, e := range t.Elems {
				el[i] = e
				if eo, ok := e.(types.Object); ok && !absent(e) {
					el[i] = x.flipInactiveUnknown(a.Msg, eo, in, fmt.Sprintf("%s[%d]", p, i))
				}
			}
			t.Elems = el
			out.Attrs[a.Attr] = t
		case types.Map:
			el := make(map[string]attr.Value, len(t.Elems))
			for k, e := range t.Elems {
				el[k] = e
				if eo, ok := e.(types.Object); ok && !absent(e) {
					el[k] = x.flipInactiveUnknown(a.Msg, eo, in, fmt.Sprintf("%s{%s}", p, k))
				}
			}
			t.Elems = el
			out.Attrs[a.Attr] = t
		}
	}
	return out
}

// groupsOf returns the oneof groups of one message level in spec order.
func groupsOf(ms *spec.Msg) (names []string, groups map[string][]*spec.Attr) {
	groups = map[string][]*spec.Attr{}
	for _, a := range ms.Live() {
		if a.Oneof != nil {
			if _, ok := groups[a.Oneof.Group]; !ok {
				names = append(names, a.Oneof.Group)
			}
			groups[a.Oneof.Group] = append(groups[a.Oneof.Group], a)
		}
	}
	return
}

// eachLevel calls f for every (message spec, struct value, object) triple
// reachable through known, non-null objects, list elements and map values.
func (x *Ctx) eachLevel(ms *spec.Msg, mv reflect.Value, obj types.Object, path string, f func(ms *spec.Msg, mv reflect.Value, obj types.Object, path string)) {
	f(ms, mv, obj, path)
	for _, a := range ms.Live() {
		if a.Msg == nil || a.Kind == spec.KCustom {
			continue
		}
		av := obj.Attrs[a.Attr]
		if absent(av) {
			continue
		}
		fv, st := getField(mv, a)
		if st != fOK {
			continue
		}
		p := path + "." + a.Attr
		deref := func(v reflect.Value) (reflect.Value, bool) {
			if v.Kind() == reflect.Ptr {
				if v.IsNil() {
					return v, false
				}
				return v.Elem(), true
			}
			if !v.CanAddr() {
				c := reflect.New(v.Type()).Elem()
				c.Set(v)
				return c, true
			}
			return v, true
		}
		switch a.Kind {
		case spec.KObject:
			if o, ok := av.(types.Object); ok {
				if v, ok := deref(fv); ok {
					x.eachLevel(a.Msg, v, o, p, f)
				}
			}
		case spec.KObjList:
			l, ok := av.(types.List)
			if !ok || fv.Len() != len(l.Elems) {
				continue
			}
			for i, e := range l.Elems {
				if eo, ok := e.(types.Object); ok && !absent(e) {
					if v, ok := deref(fv.Index(i)); ok {
						x.eachLevel(a.Msg, v, eo, fmt.Sprintf("%s[%d]", p, i), f)
					}
				}
			}
		case spec.KObjMap:
			m, ok := av.(types.Map)
			if !ok {
				continue
			}
			for k, e := range m.Elems {
				if eo, ok := e.(types.Object); ok && !absent(e) {
					ev := fv.MapIndex(reflect.ValueOf(k))
					if !ev.IsValid() {
						continue
					}
					if v, ok := deref(ev); ok {
						x.eachLevel(a.Msg, v, eo, fmt.Sprintf("%s{%s}", p, k), f)
					}
				}
			}
		}
	}
}

func groupClass(br []*spec.Attr) string {
	l := located{}
	_ = l
	var cls []string
	for _, a := range br {
		cls = append(cls, a.Class)
	}
	return fmt.Sprintf("%d-branches", len(br))
}

func monC07(x *Ctx) {
	if !hasOneof(x.Root) {
		return
	}
	s, ok := x.schemaOrViolate()
	if !ok {
		return
	}
	empty, _ := emptyObject(s)
	mt := rootStructType(x)
	// --- CopyFrom: exactly one known branch / none, every prior ------------------
	n := x.Budget(100, 1000)
	for i := 0; i < n; i++ {
		in := fmt.Sprintf("p%d", i)
		known, err := x.KnownPlan(s, in, pMostlyKnown)
		if err != nil {
			x.Res.Harness = append(x.Res.Harness, err.Error())
			return
		}
		var obj types.Object
		switch i % 3 {
		case 0:
			obj = known
		case 1:
			obj = x.flipInactiveUnknown(x.Root, known, in, "")
		default:
			// also null / unknown the active branches here and there
			m := x.mask(x.Root, known, in, "", maskOpt{pNull: 10, pUnknown: 10})
			obj, err = redecode(s, m)
			if err != nil {
				x.Res.Harness = append(x.Res.Harness, err.Error())
				return
			}
			obj = x.flipInactiveUnknown(x.Root, obj, in, "")
		}
		model := x.modelFrom(x.Root, obj, mt)
		for k := 0; k < 3; k++ {
			var q interface{}
			target := "fresh"
			if k == 0 {
				q = x.T.New()
			} else {
				q, _ = x.NewValue(fmt.Sprintf("%s/prior%d", in, k), mDense)
				target = "prefilled"
			}
			x.Eval(1)
			out := x.CopyFrom(obj, q)
			if out.Panic != nil {
				x.Violate(panicFP("CopyFrom", out)+"/"+x.embedTypeClass(), in, "CopyFrom panicked on a conforming object", map[string]interface{}{"panic": panicDetail(out), "object": dumpTF(obj)})
				continue
			}
			if e := out.errs(); len(e) > 0 {
				x.Violate("error-diag", in, "CopyFrom returned error diagnostics", map[string]interface{}{"diags": e})
				continue
			}
			x.eachLevel(x.Root, reflect.ValueOf(q).Elem(), obj, x.Root.Name, func(ms *spec.Msg, mv reflect.Value, o types.Object, path string) {
				names, groups := groupsOf(ms)
				for _, gn := range names {
					br := groups[gn]
					var active *spec.Attr
					nKnown := 0
					for _, a := range br {
						if !absent(o.Attrs[a.Attr]) {
							active = a
							nKnown++
						}
					}
					if nKnown > 1 {
						continue // not an input of the statement
					}
					cont, ok := container(mv, br[0], false)
					if !ok {
						if active != nil {
							x.Violate("from/embed-nil/"+active.Class, in, path+": oneof "+gn+" lives in a nil embed after CopyFrom although a branch is set", nil)
						}
						continue
					}
					h := cont.FieldByName(br[0].Oneof.Holder)
					x.Count("from-groups-judged", 1)
					x.Distinct(fmt.Sprintf("from/%s/%s/%v/%s", path, gn, active != nil, target))
					if active == nil {
						if !h.IsNil() {
							where := "own"
							if len(br[0].Access) > 0 {
								where = "declared-in-embedded-message"
							}
							x.Violate("from/not-nil/"+where+"/target="+target, in, fmt.Sprintf("%s: all branches of %s null/unknown but holder is %s", path, gn, h.Elem().Type()),
								map[string]interface{}{"object": dumpTF(o)})
						}
						continue
					}
					fv, st := getField(mv, active)
					if st != fOK {
						got := "nil"
						if !h.IsNil() {
							got = h.Elem().Type().String()
						}
						x.Violate("from/wrong-branch/"+active.Class+"/target="+target, in, fmt.Sprintf("%s: branch %s is set in the object but the holder is %s", path, active.Attr, got),
							map[string]interface{}{"object": dumpTF(o)})
						continue
					}
					// value of the branch
					want := x.modelAttr(active, o.Attrs[active.Attr], fv.Type())
					got := x.dumpAttr(fv, active, dumpOpt{NF: true})
					if !reflect.DeepEqual(want, got) {
						x.Violate("from/branch-value/"+active.Class, in, fmt.Sprintf("%s: branch %s decoded to %s, want %s", path, active.Attr, short(got), short(want)), nil)
					}
				}
			})
		}
		_ = model
		// the same object handed over with its own Null / Unknown flag set (hand-built; the attributes are
		// still there): a root-level group without a known branch is nil afterwards whatever the target held
		if names, groups := groupsOf(x.Root); len(names) > 0 && i%2 == 1 {
			flagged := obj
			flagged.Null, flagged.Unknown = i%4 == 1, i%4 == 3
			q, _ := x.NewValue(fmt.Sprintf("%s/prior-flagged", in), mDense)
			x.Eval(1)
			out := x.CopyFrom(flagged, q)
			if out.Panic != nil {
				x.Violate(panicFP("CopyFrom", out)+"/root-flagged/"+x.embedTypeClass(), in, "CopyFrom panicked on an object whose own null/unknown flag is set", map[string]interface{}{"panic": panicDetail(out)})
			} else {
				mv := reflect.ValueOf(q).Elem()
				for _, gn := range names {
					br := groups[gn]
					anyKnown := false
					for _, a := range br {
						if !absent(flagged.Attrs[a.Attr]) {
							anyKnown = true
						}
					}
					if anyKnown || len(br[0].Access) > 0 {
						continue // groups declared in embedded messages are judged above (finding D10)
					}
					cont, ok := container(mv, br[0], false)
					if !ok {
						continue
					}
					x.Count("from-groups-judged-root-flagged", 1)
					if h := cont.FieldByName(br[0].Oneof.Holder); !h.IsNil() {
						x.Violate("from/not-nil/root-flagged", in, fmt.Sprintf("%s: all branches of %s null/unknown (object flagged null=%v unknown=%v) but the holder still is %s", x.Root.Name, gn, flagged.Null, flagged.Unknown, h.Elem().Type()),
							map[string]interface{}{"object": dumpTF(flagged)})
					}
				}
			}
		}
	}
	// --- CopyTo into an empty object ---------------------------------------------
	for i := 0; i < n; i++ {
		in := fmt.Sprintf("v%d", i)
		p, sig := x.NewValue(in, inputMode(i))
		obj := empty
		obj.Attrs = nil
		x.Eval(1)
		out := x.CopyTo(p, &obj)
		if out.Panic != nil {
			x.Violate(panicFP("CopyTo", out)+"/"+x.nilEmbedClass(p), in, "CopyTo panicked", map[string]interface{}{"panic": panicDetail(out)})
			continue
		}
		if i == 1 {
			x.Sample(map[string]interface{}{"case": x.Case.Name, "type": x.Root.Name, "input": in, "struct": x.DumpStruct(p, dumpOpt{}), "object": dumpTF(obj)})
		}
		_ = sig
		x.eachLevel(x.Root, reflect.ValueOf(p).Elem(), obj, x.Root.Name, func(ms *spec.Msg, mv reflect.Value, o types.Object, path string) {
			names, groups := groupsOf(ms)
			for _, gn := range names {
				br := groups[gn]
				var active *spec.Attr
				nonzero := false
				for _, a := range br {
					fv, st := getField(mv, a)
					if st == fOK {
						active = a
						switch {
						case fv.Kind() == reflect.Ptr:
							nonzero = !fv.IsNil()
						case a.Msg != nil:
							nonzero = true
						default:
							nonzero = !isZeroLeaf(fv)
						}
					}
				}
				x.Count("to-groups-judged", 1)
				st := "none"
				if active != nil {
					st = active.Proto
					if !nonzero {
						st += "/zero"
					}
				}
				x.Distinct(fmt.Sprintf("to/%s/%s/%s", path, gn, st))
				for _, a := range br {
					av, ok := o.Attrs[a.Attr]
					if !ok || av == nil {
						continue // C03
					}
					wantNull := !(a == active && nonzero)
					if av.IsNull() != wantNull {
						role := "inactive"
						if a == active {
							role = "active"
						}
						x.Violate(fmt.Sprintf("to/nullness/%s/%s/want-null=%v", a.Class, role, wantNull), in,
							fmt.Sprintf("%s.%s: null=%v, want %v (%s branch of %s)", path, a.Attr, av.IsNull(), wantNull, role, gn),
							map[string]interface{}{"struct": x.DumpStruct(p, dumpOpt{}), "object": dumpTF(o)})
					}
				}
			}
		})
	}
}

package rt

// PRF is a keyed pseudo-random function: the value placed at field path P of
// logical input i of case c is PRF(seed, c, i, P), so variants of a case that
// share field paths receive identical logical inputs.
type PRF struct {
	Seed uint64
	Case string
}

func mix(h uint64) uint64 {
	h ^= h >> 30
	h *= 0xbf58476d1ce4e5b9
	h ^= h >> 27
	h *= 0x94d049bb133111eb
	h ^= h >> 31
	return h
}

func hashStr(h uint64, s string) uint64 {
	for i := 0; i < len(s); i++ {
		h ^= uint64(s[i])
		h *= 1099511628211
	}
	h ^= 0xff
	h *= 1099511628211
	return h
}

// U64 returns the pseudo-random value for the given key parts.
func (p PRF) U64(parts ...string) uint64 {
	h := uint64(14695981039346656037) ^ mix(p.Seed+0x9e3779b97f4a7c15)
	h = hashStr(h, p.Case)
	for _, s := range parts {
		h = hashStr(h, s)
	}
	return mix(h)
}

// Int returns a value in [0,n).
func (p PRF) Int(n int, parts ...string) int {
	if n <= 1 {
		return 0
	}
	return int(p.U64(parts...) % uint64(n))
}

// rng is a small deterministic stream derived from one PRF value.
type rng struct{ s uint64 }

func (r *rng) next() uint64 {
	r.s += 0x9e3779b97f4a7c15
	return mix(r.s)
}

func (r *rng) intn(n int) int {
	if n <= 1 {
		return 0
	}
	return int(r.next() % uint64(n))
}

package rt

import (
	"fmt"
	"reflect"

	"github.com/hashicorp/terraform-plugin-framework/attr"
	"github.com/hashicorp/terraform-plugin-framework/types"

	"verif/rt/spec"
)

func init() {
	monitors["C04"] = monC04
	monitors["C20"] = monC20
}

// roundTrip copies p into an empty schema-typed object and back into a fresh struct.
// ok=false: a violation was already recorded.
func (x *Ctx) roundTrip(in string, p interface{}, empty types.Object) (obj types.Object, q interface{}, ok bool) {
	obj = empty
	obj.Attrs = nil
	out := x.CopyTo(p, &obj)
	if out.Panic != nil {
		x.Violate(panicFP("CopyTo", out)+"/"+x.nilEmbedClass(p), in, "CopyTo panicked", map[string]interface{}{"panic": panicDetail(out), "struct": x.DumpStruct(p, dumpOpt{})})
		return obj, nil, false
	}
	if e := out.errs(); len(e) > 0 {
		x.Violate("error-diag/CopyTo", in, "CopyTo returned error diagnostics", map[string]interface{}{"diags": e})
		return obj, nil, false
	}
	q = x.T.New()
	out = x.CopyFrom(obj, q)
	if out.Panic != nil {
		x.Violate(panicFP("CopyFrom", out)+"/"+x.embedTypeClass(), in, "CopyFrom panicked on CopyTo's output", map[string]interface{}{"panic": panicDetail(out), "struct": x.DumpStruct(p, dumpOpt{})})
		return obj, nil, false
	}
	if e := out.errs(); len(e) > 0 {
		x.Violate("error-diag/CopyFrom", in, "CopyFrom returned error diagnostics on CopyTo's output", map[string]interface{}{"diags": e, "object": dumpTF(obj)})
		return obj, nil, false
	}
	return obj, q, true
}

func monC04(x *Ctx) {
	s, so := x.Schema()
	if so.Panic != nil || so.Diags.HasError() {
		x.Violate("schema-failed", "-", fmt.Sprintf("GenSchema failed: %v %v", so.Panic, so.Diags), nil)
		return
	}
	empty, err := emptyObject(s)
	if err != nil {
		x.Violate("schema-type", "-", err.Error(), nil)
		return
	}
	n := x.Budget(150, 1500)
	for i := 0; i < n; i++ {
		in := fmt.Sprintf("v%d", i)
		p, sig := x.NewValue(in, inputMode(i))
		x.Eval(1)
		x.Distinct(sig)
		before := x.DumpStruct(p, dumpOpt{NF: true})
		obj, q, ok := x.roundTrip(in, p, empty)
		if !ok {
			continue
		}
		after := x.DumpStruct(q, dumpOpt{NF: true})
		if i == 1 {
			x.Sample(map[string]interface{}{"case": x.Case.Name, "type": x.Root.Name, "input": in, "normal_form": before})
		}
		if !reflect.DeepEqual(before, after) {
			seen := map[string]bool{}
			for _, d := range DiffPaths(before, after) {
				cls := classAt(x.Root, d)
				if seen[cls] {
					continue
				}
				seen[cls] = true
				x.Violate("roundtrip-diff/"+cls, in, "round trip changed "+d, map[string]interface{}{"path": d, "before": before, "after": after, "object": dumpTF(obj)})
			}
		}
	}
}

// ---------------------------------------------------------------------------
// C20: absence is null, presence is non-null (empty target)

func (x *Ctx) nullness(ms *spec.Msg, mv reflect.Value, obj types.Object, path, in string, full interface{}) {
	// oneof groups: which branch is active in the struct
	for _, a := range ms.Live() {
		av, ok := obj.Attrs[a.Attr]
		if !ok || av == nil {
			continue // C03 reports absent attributes
		}
		p := path + "." + a.Attr
		x.Count("judged-attributes", 1)
		report := func(want bool, why string) {
			if av.IsNull() != want {
				x.Violate(fmt.Sprintf("nullness/%s/want-null=%v", a.Class, want), in, fmt.Sprintf("%s: null=%v, want %v (%s)", p, av.IsNull(), want, why),
					map[string]interface{}{"struct": full, "attr": dumpTF(av)})
			}
		}
		f, st := getField(mv, a)
		switch st {
		case fOneofInactive:
			report(true, "inactive oneof branch")
			continue
		case fEmbedNil:
			if a.Kind == spec.KCustom {
				continue
			}
			if a.Kind == spec.KObject && !a.Ptr {
				continue // not judged: by-value message inside a nil embed
			}
			if a.Kind == spec.KScalar && !a.Ptr && (a.Leaf == spec.LTime || a.Leaf == spec.LDuration) {
				// pointer-backed through the nullable embed
				report(true, "nullable embed is nil")
				continue
			}
			report(true, "nullable embed is nil")
			continue
		}
		switch a.Kind {
		case spec.KCustom:
			continue
		case spec.KScalar:
			if a.Ptr {
				report(f.IsNil(), "pointer nil-ness")
				continue
			}
			if a.Leaf == spec.LTime || a.Leaf == spec.LDuration {
				continue // by-value time/duration: always rendered, not judged
			}
			report(isZeroLeaf(f), "zero value")
		case spec.KList, spec.KMap, spec.KObjList, spec.KObjMap:
			report(f.Len() == 0, "empty collection")
		case spec.KObject:
			if f.Kind() == reflect.Ptr {
				report(f.IsNil(), "message pointer nil-ness")
				if f.IsNil() {
					continue
				}
				f = f.Elem()
			} else {
				report(false, "non-nullable message")
			}
			if o, ok := av.(types.Object); ok && !o.Null && !o.Unknown {
				x.nullness(a.Msg, f, o, p, in, full)
			}
		}
	}
	if ms.Placeholder {
		if av, ok := obj.Attrs["active"]; ok && av != nil && !av.IsNull() {
			x.Violate("nullness/placeholder/want-null=true", in, path+".active: placeholder is not null", map[string]interface{}{"attr": dumpTF(av)})
		}
	}
}

func monC20(x *Ctx) {
	s, so := x.Schema()
	if so.Panic != nil || so.Diags.HasError() {
		x.Violate("schema-failed", "-", fmt.Sprintf("GenSchema failed: %v %v", so.Panic, so.Diags), nil)
		return
	}
	n := x.Budget(150, 1500)
	for i := 0; i < n; i++ {
		in := fmt.Sprintf("v%d", i)
		p, sig := x.NewValue(in, inputMode(i))
		obj, err := emptyObject(s)
		if err != nil {
			x.Violate("schema-type", in, err.Error(), nil)
			return
		}
		x.Eval(1)
		x.Distinct(sig)
		out := x.CopyTo(p, &obj)
		if out.Panic != nil {
			x.Violate(panicFP("CopyTo", out)+"/"+x.nilEmbedClass(p), in, "CopyTo panicked", map[string]interface{}{"panic": panicDetail(out), "struct": x.DumpStruct(p, dumpOpt{})})
			continue
		}
		if i == 2 {
			x.Sample(map[string]interface{}{"case": x.Case.Name, "type": x.Root.Name, "input": in, "struct": x.DumpStruct(p, dumpOpt{}), "object": dumpTF(obj)})
		}
		x.nullness(x.Root, reflect.ValueOf(p).Elem(), obj, x.Root.Name, in, x.DumpStruct(p, dumpOpt{}))
	}
}

var _ attr.Value

package rt

import (
	"fmt"
	"reflect"
	"strings"

	"verif/rt/spec"
)

// akey is the variant-independent key of an attribute inside its message level:
// the embedded structs traversed plus the proto field name.
func akey(a *spec.Attr) string {
	if len(a.Access) == 0 {
		return a.Proto
	}
	var b strings.Builder
	for _, s := range a.Access {
		b.WriteString(s.GoName)
		b.WriteByte('.')
	}
	b.WriteString(a.Proto)
	return b.String()
}

func chainKey(steps []spec.Step) string {
	var b strings.Builder
	for _, s := range steps {
		b.WriteString(s.GoName)
		b.WriteByte('.')
	}
	return b.String()
}

// container walks the embed chain of a. mv must be an addressable struct
// value. With alloc, nil embed pointers are allocated. ok=false: a nullable
// embed on the way is nil.
func container(mv reflect.Value, a *spec.Attr, alloc bool) (reflect.Value, bool) {
	cur := mv
	for _, s := range a.Access {
		f := cur.FieldByName(s.GoName)
		if !f.IsValid() {
			panic(fmt.Sprintf("HARNESS: no embedded field %s in %s", s.GoName, cur.Type()))
		}
		if s.Ptr {
			if f.IsNil() {
				if !alloc {
					return reflect.Value{}, false
				}
				f.Set(reflect.New(f.Type().Elem()))
			}
			cur = f.Elem()
		} else {
			cur = f
		}
	}
	return cur, true
}

// Field states returned by getField.
const (
	fOK            = "ok"
	fEmbedNil      = "embed-nil"
	fOneofInactive = "oneof-inactive"
)

// getField returns the storage of a inside message struct mv.
func getField(mv reflect.Value, a *spec.Attr) (reflect.Value, string) {
	cont, ok := container(mv, a, false)
	if !ok {
		return reflect.Value{}, fEmbedNil
	}
	if a.Oneof != nil {
		h := cont.FieldByName(a.Oneof.Holder)
		if !h.IsValid() {
			panic(fmt.Sprintf("HARNESS: no oneof holder %s in %s", a.Oneof.Holder, cont.Type()))
		}
		if h.IsNil() {
			return reflect.Value{}, fOneofInactive
		}
		w := h.Elem() // *Wrapper
		if w.Kind() != reflect.Ptr || w.IsNil() || w.Type().Elem().Name() != a.Oneof.Wrapper {
			return reflect.Value{}, fOneofInactive
		}
		return w.Elem().Field(0), fOK
	}
	f := cont.FieldByName(a.GoName)
	if !f.IsValid() {
		panic(fmt.Sprintf("HARNESS: no field %s in %s", a.GoName, cont.Type()))
	}
	return f, fOK
}

// fieldType returns the Go type of the field backing a.
func (x *Ctx) fieldType(mt reflect.Type, a *spec.Attr) reflect.Type {
	cur := mt
	for _, s := range a.Access {
		f, ok := cur.FieldByName(s.GoName)
		if !ok {
			panic(fmt.Sprintf("HARNESS: no embedded field %s in %s", s.GoName, cur))
		}
		cur = f.Type
		if cur.Kind() == reflect.Ptr {
			cur = cur.Elem()
		}
	}
	if a.Oneof != nil {
		wt, ok := x.Reg.Wrappers[a.Oneof.Wrapper]
		if !ok {
			panic("HARNESS: wrapper type not registered: " + a.Oneof.Wrapper)
		}
		return wt.Field(0).Type
	}
	f, ok := cur.FieldByName(a.GoName)
	if !ok {
		panic(fmt.Sprintf("HARNESS: no field %s in %s", a.GoName, cur))
	}
	return f.Type
}

// setOneof stores val as the active branch a of its group.
func (x *Ctx) setOneof(mv reflect.Value, a *spec.Attr, val reflect.Value) {
	cont, _ := container(mv, a, true)
	wt := x.Reg.Wrappers[a.Oneof.Wrapper]
	w := reflect.New(wt)
	w.Elem().Field(0).Set(val)
	cont.FieldByName(a.Oneof.Holder).Set(w)
}

// clearOneof sets the holder of a's group to nil.
func clearOneof(mv reflect.Value, a *spec.Attr) {
	cont, ok := container(mv, a, false)
	if !ok {
		return
	}
	h := cont.FieldByName(a.Oneof.Holder)
	h.Set(reflect.Zero(h.Type()))
}

// selfCheck verifies the harness's assumptions about gogo's Go names against
// the compiled structs (a mismatch is a harness error, never a violation).
func (x *Ctx) selfCheck() (err error) {
	defer func() {
		if r := recover(); r != nil {
			err = fmt.Errorf("%v", r)
		}
	}()
	root := reflect.TypeOf(x.T.New()).Elem()
	var walk func(mt reflect.Type, ms *spec.Msg)
	walk = func(mt reflect.Type, ms *spec.Msg) {
		for _, a := range ms.Attrs {
			ft := x.fieldType(mt, a)
			if a.Oneof != nil {
				cur := mt
				for _, s := range a.Access {
					f, _ := cur.FieldByName(s.GoName)
					cur = f.Type
					if cur.Kind() == reflect.Ptr {
						cur = cur.Elem()
					}
				}
				if _, ok := cur.FieldByName(a.Oneof.Holder); !ok {
					panic(fmt.Sprintf("HARNESS: no oneof holder %s in %s", a.Oneof.Holder, cur))
				}
			}
			if a.Msg != nil {
				et := ft
				for et.Kind() == reflect.Ptr || et.Kind() == reflect.Slice || et.Kind() == reflect.Map {
					et = et.Elem()
				}
				if et.Kind() != reflect.Struct {
					panic(fmt.Sprintf("HARNESS: %s is not a message type (%s)", a.Path, ft))
				}
				walk(et, a.Msg)
			}
		}
	}
	walk(root, x.Root)
	return nil
}

package rt

import (
	"fmt"
	"math"
	"reflect"

	"github.com/hashicorp/terraform-plugin-framework/attr"
	"github.com/hashicorp/terraform-plugin-framework/types"

	"verif/rt/spec"
)

func init() { monitors["C09"] = monC09 }

func asObject(v attr.Value) (types.Object, bool) {
	o, ok := v.(types.Object)
	if !ok || o.Null || o.Unknown {
		return types.Object{}, false
	}
	return o, true
}

// refreshWalk judges the object after a CopyTo step against the new source nv
// (struct value) and the object before the step.
func (x *Ctx) refreshWalk(ms *spec.Msg, nv reflect.Value, before types.Object, hasBefore bool, after types.Object, path string, out *[]problem) {
	for _, a := range ms.Live() {
		if a.Kind == spec.KCustom {
			continue
		}
		av, ok := after.Attrs[a.Attr]
		p := path + "." + a.Attr
		if !ok || av == nil {
			*out = append(*out, problem{fp: "attr-absent/" + a.Class, path: p, msg: "attribute absent after refresh"})
			continue
		}
		if av.IsUnknown() {
			*out = append(*out, problem{fp: "unknown/" + a.Class, path: p, msg: "unknown after refresh"})
			continue
		}
		var bv attr.Value
		if hasBefore {
			bv = before.Attrs[a.Attr]
		}
		f, st := getField(nv, a)
		ft := x.fieldType(nv.Type(), a)
		zero := reflect.Zero(ft)
		src := zero // what the converter reads: zero for inactive branches
		if st == fOK {
			src = f
		}
		x.Count("refresh-attributes-judged", 1)
		switch a.Kind {
		case spec.KScalar:
			if a.Ptr {
				if st == fEmbedNil || st == fOneofInactive {
					if !av.IsNull() {
						*out = append(*out, problem{fp: "ptr-scalar-not-null/" + a.Class, path: p, msg: "source pointer absent but attribute is not null"})
					}
					continue
				}
				if av.IsNull() != src.IsNil() {
					*out = append(*out, problem{fp: fmt.Sprintf("ptr-scalar-nullness/%s/nil=%v", a.Class, src.IsNil()), path: p,
						msg: fmt.Sprintf("source pointer nil=%v but attribute null=%v", src.IsNil(), av.IsNull())})
					continue
				}
				if !src.IsNil() {
					if got, want := canonLeaf(convLeaf(av, ft.Elem())), canonLeaf(src.Elem()); got != want {
						*out = append(*out, problem{fp: "value-stale/" + a.Class, path: p, msg: fmt.Sprintf("attribute %v, source %v", got, want)})
					}
				}
				continue
			}
			if st == fEmbedNil {
				continue // by-value field of a nil embed: no source value
			}
			if bv != nil && !bv.IsNull() && !bv.IsUnknown() {
				if av.IsNull() {
					*out = append(*out, problem{fp: "scalar-became-null/" + a.Class, path: p, msg: "attribute was non-null before the step and is null now"})
					continue
				}
				if got, want := canonLeaf(convLeaf(av, ft)), canonLeaf(src); got != want {
					*out = append(*out, problem{fp: "value-stale/" + a.Class, path: p, msg: fmt.Sprintf("attribute %v, source %v", got, want)})
				}
			}
		case spec.KList, spec.KObjList:
			if st == fEmbedNil {
				continue
			}
			l, ok := av.(types.List)
			if !ok {
				continue
			}
			n := src.Len()
			if l.Null {
				if n != 0 {
					*out = append(*out, problem{fp: "list-null-with-source/" + a.Class, path: p, msg: fmt.Sprintf("source has %d elements, attribute is null", n)})
				}
				continue
			}
			if len(l.Elems) != n {
				*out = append(*out, problem{fp: fmt.Sprintf("list-length/%s/source-empty=%v", a.Class, n == 0), path: p, msg: fmt.Sprintf("source has %d elements, attribute has %d", n, len(l.Elems))})
				continue
			}
			for i, e := range l.Elems {
				got := x.modelElem(a, e, ft.Elem())
				want := x.dumpElem(src.Index(i), a, dumpOpt{NF: true})
				if !reflect.DeepEqual(got, want) {
					*out = append(*out, problem{fp: "list-element/" + a.Class, path: fmt.Sprintf("%s[%d]", p, i), msg: fmt.Sprintf("element decodes to %s, source %s", short(got), short(want))})
					break
				}
			}
		case spec.KMap, spec.KObjMap:
			if st == fEmbedNil {
				continue
			}
			m, ok := av.(types.Map)
			if !ok {
				continue
			}
			n := src.Len()
			if m.Null {
				if n != 0 {
					*out = append(*out, problem{fp: "map-null-with-source/" + a.Class, path: p, msg: fmt.Sprintf("source has %d keys, attribute is null", n)})
				}
				continue
			}
			stale := 0
			for k := range m.Elems {
				if !src.MapIndex(reflect.ValueOf(k).Convert(ft.Key())).IsValid() {
					stale++
				}
			}
			if stale > 0 || len(m.Elems) != n {
				*out = append(*out, problem{fp: fmt.Sprintf("map-keys/%s/stale=%v", a.Class, stale > 0), path: p, msg: fmt.Sprintf("source has %d keys, attribute has %d (%d not in the source)", n, len(m.Elems), stale)})
				continue
			}
			it := src.MapRange()
			for it.Next() {
				e := m.Elems[it.Key().String()]
				got := x.modelElem(a, e, ft.Elem())
				want := x.dumpElem(it.Value(), a, dumpOpt{NF: true})
				if !reflect.DeepEqual(got, want) {
					*out = append(*out, problem{fp: "map-value/" + a.Class, path: fmt.Sprintf("%s{%s}", p, it.Key()), msg: fmt.Sprintf("value decodes to %s, source %s", short(got), short(want))})
					break
				}
			}
		case spec.KObject:
			if st == fEmbedNil {
				continue
			}
			if src.Kind() == reflect.Ptr {
				if st == fOneofInactive || src.IsNil() {
					if !av.IsNull() && st != fOneofInactive {
						*out = append(*out, problem{fp: "nil-message-not-null/" + a.Class, path: p, msg: "source message is nil but attribute is not null"})
					}
					continue
				}
				src = src.Elem()
			}
			ao, ok := asObject(av)
			if !ok {
				continue
			}
			bo, hb := types.Object{}, false
			if bv != nil {
				bo, hb = asObject(bv)
			}
			if !src.CanAddr() {
				c := reflect.New(src.Type()).Elem()
				c.Set(src)
				src = c
			}
			x.refreshWalk(a.Msg, src, bo, hb, ao, p, out)
		}
	}
}

// nudgeFloats replaces every finite float in v by the next representable number; it returns how many it changed.
func nudgeFloats(v reflect.Value) int {
	n := 0
	switch v.Kind() {
	case reflect.Ptr, reflect.Interface:
		if !v.IsNil() {
			n += nudgeFloats(v.Elem())
		}
	case reflect.Struct:
		for i := 0; i < v.NumField(); i++ {
			if v.Field(i).CanSet() || v.Field(i).Kind() == reflect.Ptr || v.Field(i).Kind() == reflect.Interface {
				n += nudgeFloats(v.Field(i))
			}
		}
	case reflect.Slice:
		for i := 0; i < v.Len(); i++ {
			n += nudgeFloats(v.Index(i))
		}
	case reflect.Map:
		for _, k := range v.MapKeys() {
			e := reflect.New(v.Type().Elem()).Elem()
			e.Set(v.MapIndex(k))
			if c := nudgeFloats(e); c > 0 {
				v.SetMapIndex(k, e)
				n += c
			}
		}
	case reflect.Float32:
		f := float32(v.Float())
		if v.CanSet() && !math.IsNaN(float64(f)) && !math.IsInf(float64(f), 0) && f < math.MaxFloat32 {
			v.SetFloat(float64(math.Nextafter32(f, float32(math.Inf(1)))))
			n++
		}
	case reflect.Float64:
		f := v.Float()
		if v.CanSet() && !math.IsNaN(f) && !math.IsInf(f, 0) && f < math.MaxFloat64 {
			v.SetFloat(math.Nextafter(f, math.Inf(1)))
			n++
		}
	}
	return n
}

func monC09(x *Ctx) {
	s, ok := x.schemaOrViolate()
	if !ok {
		return
	}
	empty, _ := emptyObject(s)
	n := x.Budget(100, 1000)
	for i := 0; i < n; i++ {
		// histories of 2 calls, every fourth one of 4 calls (quick); 5, every fourth one 8 (thorough)
		steps := 2
		if i%4 == 3 {
			steps = 4
		}
		if x.Opt.Tier == "thorough" {
			steps = 5
			if i%4 == 3 {
				steps = 8
			}
		}
		in := fmt.Sprintf("h%d", i)
		obj := empty
		obj.Attrs = nil
		var trace []interface{}
		var sigs string
		okHist := true
		for k := 0; k < steps && okHist; k++ {
			// alternate dense and sparse sources so collections grow, shrink, empty and become nil
			mode := []int{mDense, mMixed, mSparse, mZero, mBoundary}[(i+k*2)%5]
			if k == 0 {
				mode = []int{mDense, mMixed}[i%2]
			}
			src, sig := x.NewValue(fmt.Sprintf("%s/s%d", in, k), mode)
			if k == 1 && i%5 == 2 {
				// the new source is the previous one with every floating point number replaced by its neighbour
				// (one unit in the last place): a refresh follows the smallest change there is
				src, sig = x.NewValue(fmt.Sprintf("%s/s%d", in, 0), []int{mDense, mMixed}[i%2])
				x.Count("float-neighbours-written", nudgeFloats(reflect.ValueOf(src)))
				sig += "+ulp"
			}
			sigs += sig + "|"
			before := deepCopyTF(obj).(types.Object)
			x.Eval(1)
			out := x.CopyTo(src, &obj)
			trace = append(trace, x.DumpStruct(src, dumpOpt{}))
			if out.Panic != nil {
				x.Violate(panicFP("CopyTo", out)+"/"+x.nilEmbedClass(src), in, fmt.Sprintf("CopyTo panicked at step %d", k), map[string]interface{}{"panic": panicDetail(out)})
				okHist = false
				break
			}
			if e := out.errs(); len(e) > 0 {
				x.Violate("error-diag", in, fmt.Sprintf("CopyTo returned error diagnostics at step %d", k), map[string]interface{}{"diags": e})
				okHist = false
				break
			}
			if k == 0 {
				continue // the first step fills the empty object (C03 / C20)
			}
			var probs []problem
			x.refreshWalk(x.Root, reflect.ValueOf(src).Elem(), before, true, obj, x.Root.Name, &probs)
			for _, pr := range probs {
				x.Violate("refresh/"+pr.fp, in, fmt.Sprintf("step %d: %s: %s", k, pr.path, pr.msg), map[string]interface{}{"sources": trace, "before": dumpTF(before), "after": dumpTF(obj)})
			}
			// idempotence
			first := dumpTF(obj)
			again := deepCopyTF(obj).(types.Object)
			x.Eval(1)
			out = x.CopyTo(src, &again)
			if out.Panic != nil || len(out.errs()) > 0 {
				x.Violate("repeat-failed", in, fmt.Sprintf("repeating step %d failed: %v %v", k, out.Panic, out.errs()), nil)
				continue
			}
			if second := dumpTF(again); !reflect.DeepEqual(first, second) {
				d := DiffPaths(first, second)
				x.Violate("not-idempotent", in, fmt.Sprintf("repeating step %d changed the object at %v", k, d), map[string]interface{}{"first": first, "second": second})
			}
		}
		x.Distinct(sigOf(sigs))
		if i == 1 {
			x.Sample(map[string]interface{}{"case": x.Case.Name, "type": x.Root.Name, "input": in, "sources": trace, "final_object": dumpTF(obj)})
		}
	}
}

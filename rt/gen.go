package rt

import (
	"fmt"
	"math"
	"reflect"
	"sort"
	"strings"
	"time"

	"verif/rt/spec"
)

// Generation modes.
const (
	mMixed = iota
	mSparse
	mDense
	mBoundary
	mZero
	numModes
)

var timeType = reflect.TypeOf(time.Time{})

// valueGen builds struct values from the state lattice of DESIGN.md §5.
type valueGen struct {
	x     *Ctx
	in    string // logical input id
	mode  int
	sig   strings.Builder
	embed map[string]int // decision per nullable embed (0 nil, 1 non-nil zero, 2 populated)
	depth int
}

func (x *Ctx) newGen(in string, mode int) *valueGen {
	return &valueGen{x: x, in: in, mode: mode, embed: map[string]int{}}
}

// NewValue returns a pointer to a freshly generated root struct and its shape signature.
func (x *Ctx) NewValue(in string, mode int) (interface{}, string) {
	g := x.newGen(in, mode)
	p := x.T.New()
	g.fillMsg(reflect.ValueOf(p).Elem(), x.Root, "")
	return p, g.sig.String()
}

func (g *valueGen) pick(n int, path, what string) int {
	return g.x.prf.Int(n, g.in, path, what)
}

// present decides absent(0)/present(1) according to the mode.
func (g *valueGen) present(path, what string) bool {
	r := g.pick(100, path, what)
	switch g.mode {
	case mZero:
		return false
	case mSparse:
		return r < 20
	case mDense:
		return r < 90
	}
	return r < 55
}

func (g *valueGen) collLen(path string) int {
	// -1 nil, 0 empty non-nil, n elements
	if g.mode == mZero {
		return -1
	}
	if !g.present(path, "coll") {
		if g.pick(2, path, "nil-or-empty") == 0 {
			return -1
		}
		return 0
	}
	max := 4
	if g.depth >= 2 {
		max = 2
	}
	// now and then a long collection (capacity / index slips only show beyond a few elements)
	if g.depth <= 1 && g.pick(40, path, "long") == 0 {
		return 9 + g.pick(40, path, "longlen")
	}
	return 1 + g.pick(max, path, "len")
}

var mapKeys = []string{"a", "b", "", "key with space", "K", "ünï", "z9", "a.b", "name", "value", "key", "active", "0", "null"}

func (g *valueGen) mapKey(path string, i int) string {
	if i >= len(mapKeys) {
		return fmt.Sprintf("key%03d", i)
	}
	return mapKeys[(g.pick(len(mapKeys), path, "keybase")+i)%len(mapKeys)]
}

func (g *valueGen) fillMsg(mv reflect.Value, ms *spec.Msg, path string) {
	g.depth++
	defer func() { g.depth-- }()
	groups := map[string][]*spec.Attr{}
	var order []string
	for _, a := range ms.Attrs {
		if a.Oneof != nil {
			if _, ok := groups[a.Oneof.Group]; !ok {
				order = append(order, a.Oneof.Group)
			}
			groups[a.Oneof.Group] = append(groups[a.Oneof.Group], a)
		}
	}
	for _, a := range ms.Attrs {
		if a.Oneof != nil {
			continue
		}
		if !g.enterEmbeds(mv, a, path) {
			continue
		}
		cont, _ := container(mv, a, true)
		f := cont.FieldByName(a.GoName)
		g.fillAttr(f, a, path+"/"+akey(a))
	}
	sort.Strings(order)
	for _, gname := range order {
		branches := groups[gname]
		// the choice must not depend on the declaration order
		sort.Slice(branches, func(i, j int) bool { return branches[i].Proto < branches[j].Proto })
		a0 := branches[0]
		if !g.enterEmbeds(mv, a0, path) {
			continue
		}
		gp := path + "/oneof:" + gname
		if !g.present(gp, "active") {
			g.sig.WriteString("o-")
			continue
		}
		bi := g.pick(len(branches), gp, "branch")
		a := branches[bi]
		ft := g.x.fieldType(mv.Type(), a)
		val := reflect.New(ft).Elem()
		// payload: zero payload is a lattice point of its own
		if g.pick(5, gp, "zero-payload") == 0 && g.mode != mDense {
			g.sig.WriteString(fmt.Sprintf("o%dz", bi))
		} else {
			g.sig.WriteString(fmt.Sprintf("o%d", bi))
			g.fillAttrForce(val, a, path+"/"+akey(a))
		}
		g.x.setOneof(mv, a, val)
	}
}

// enterEmbeds applies the lattice decision of every nullable embed on the way to a.
func (g *valueGen) enterEmbeds(mv reflect.Value, a *spec.Attr, path string) bool {
	for i, s := range a.Access {
		if !s.Ptr {
			continue
		}
		key := path + "/embed:" + chainKey(a.Access[:i+1])
		d, ok := g.embed[key]
		if !ok {
			switch {
			case g.mode == mZero:
				d = 0
			case !g.present(key, "embed"):
				d = g.pick(2, key, "nil-or-zero")
			default:
				d = 2
			}
			g.embed[key] = d
			g.sig.WriteString(fmt.Sprintf("e%d", d))
			if d > 0 {
				container(mv, &spec.Attr{Access: a.Access[:i+1]}, true)
			}
		}
		if d != 2 {
			return false
		}
	}
	return true
}

// fillAttrForce fills a oneof payload (always "present").
func (g *valueGen) fillAttrForce(f reflect.Value, a *spec.Attr, path string) {
	switch a.Kind {
	case spec.KScalar:
		if a.Ptr {
			p := reflect.New(f.Type().Elem())
			g.leaf(p.Elem(), a, path, true)
			f.Set(p)
		} else {
			g.leaf(f, a, path, true)
		}
	case spec.KObject:
		if f.Kind() == reflect.Ptr {
			if g.pick(8, path, "nil-msg-branch") == 0 {
				g.sig.WriteString("n")
				return // message branch with nil pointer
			}
			p := reflect.New(f.Type().Elem())
			g.fillMsg(p.Elem(), a.Msg, path)
			f.Set(p)
		} else {
			g.fillMsg(f, a.Msg, path)
		}
	default:
		g.fillAttr(f, a, path)
	}
}

func (g *valueGen) fillAttr(f reflect.Value, a *spec.Attr, path string) {
	switch a.Kind {
	case spec.KScalar:
		if a.Ptr {
			if !g.present(path, "ptr") {
				g.sig.WriteString("p-")
				return
			}
			g.sig.WriteString("p+")
			p := reflect.New(f.Type().Elem())
			g.leaf(p.Elem(), a, path, false)
			f.Set(p)
			return
		}
		if f.Kind() == reflect.Slice && f.Type().Elem().Kind() == reflect.Uint8 {
			// bytes: nil / empty / content
			n := g.collLen(path)
			switch {
			case n < 0:
				g.sig.WriteString("b-")
			case n == 0:
				g.sig.WriteString("b0")
				f.Set(reflect.MakeSlice(f.Type(), 0, 0))
			default:
				g.sig.WriteString("b+")
				g.leaf(f, a, path, true)
			}
			return
		}
		if !g.present(path, "scalar") {
			g.sig.WriteString("s0")
			return
		}
		g.sig.WriteString("s+")
		g.leaf(f, a, path, false)
	case spec.KList:
		n := g.collLen(path)
		g.sig.WriteString(fmt.Sprintf("l%d", n))
		if n < 0 {
			return
		}
		s := reflect.MakeSlice(f.Type(), n, n)
		for i := 0; i < n; i++ {
			g.elem(s.Index(i), a, fmt.Sprintf("%s[%d]", path, i))
		}
		f.Set(s)
	case spec.KMap:
		n := g.collLen(path)
		g.sig.WriteString(fmt.Sprintf("m%d", n))
		if n < 0 {
			return
		}
		m := reflect.MakeMapWithSize(f.Type(), n)
		for i := 0; i < n; i++ {
			k := g.mapKey(path, i)
			v := reflect.New(f.Type().Elem()).Elem()
			g.elem(v, a, fmt.Sprintf("%s{%s}", path, k))
			m.SetMapIndex(reflect.ValueOf(k).Convert(f.Type().Key()), v)
		}
		f.Set(m)
	case spec.KObject:
		if f.Kind() == reflect.Ptr {
			if !g.present(path, "msgptr") {
				g.sig.WriteString("M-")
				return
			}
			g.sig.WriteString("M+")
			p := reflect.New(f.Type().Elem())
			g.fillMsg(p.Elem(), a.Msg, path)
			f.Set(p)
			return
		}
		g.sig.WriteString("M")
		g.fillMsg(f, a.Msg, path)
	case spec.KObjList:
		n := g.collLen(path)
		g.sig.WriteString(fmt.Sprintf("L%d", n))
		if n < 0 {
			return
		}
		s := reflect.MakeSlice(f.Type(), n, n)
		for i := 0; i < n; i++ {
			g.msgElem(s.Index(i), a, fmt.Sprintf("%s[%d]", path, i))
		}
		f.Set(s)
	case spec.KObjMap:
		n := g.collLen(path)
		g.sig.WriteString(fmt.Sprintf("O%d", n))
		if n < 0 {
			return
		}
		m := reflect.MakeMapWithSize(f.Type(), n)
		for i := 0; i < n; i++ {
			k := g.mapKey(path, i)
			v := reflect.New(f.Type().Elem()).Elem()
			g.msgElem(v, a, fmt.Sprintf("%s{%s}", path, k))
			m.SetMapIndex(reflect.ValueOf(k), v)
		}
		f.Set(m)
	case spec.KCustom:
		if g.present(path, "custom") {
			g.sig.WriteString("c+")
			fillAny(f, g.x.prf.U64(g.in, path, "custom"))
		} else {
			g.sig.WriteString("c0")
		}
	}
}

func (g *valueGen) msgElem(v reflect.Value, a *spec.Attr, path string) {
	if v.Kind() == reflect.Ptr {
		// a nil element is a value of the Go type too (the converters render it as a null element)
		if g.pick(14, path, "nil-elem") == 0 {
			g.sig.WriteString("N")
			return
		}
		p := reflect.New(v.Type().Elem())
		g.fillMsg(p.Elem(), a.Msg, path)
		v.Set(p)
		return
	}
	g.fillMsg(v, a.Msg, path)
}

// elem fills a list element / map value of a scalar-like leaf.
func (g *valueGen) elem(v reflect.Value, a *spec.Attr, path string) {
	if v.Kind() == reflect.Ptr {
		if g.pick(14, path, "nil-elem") == 0 {
			g.sig.WriteString("N")
			return
		}
		p := reflect.New(v.Type().Elem())
		g.leaf(p.Elem(), a, path, false)
		v.Set(p)
		return
	}
	// elements may be zero values
	if g.pick(6, path, "zero-elem") == 0 {
		return
	}
	g.leaf(v, a, path, false)
}

var strLattice = []string{"a", "hello world", "ünï©ode ✓", "\xff\xfe\x00raw", " lead", "trail ", "multi\nline", "0", "false", "null", "x/y/z", "\"quoted\"", "a,b=c+d",
	// values that look like an encoding of something else
	"base64:QUJD", "base64:", "hex:00ff", "0x1f", "b64:AAAA", "data:text/plain;base64,QQ==", "${var.x}", "%!s(MISSING)", "\\x00", "[]", "{}", "true"}

// leaf stores a non-trivial value of the leaf type (zero only by chance or when
// the lattice says so).
func (g *valueGen) leaf(v reflect.Value, a *spec.Attr, path string, nonzero bool) {
	r := rng{s: g.x.prf.U64(g.in, path, "leaf")}
	boundary := g.mode == mBoundary || r.intn(4) == 0
	switch {
	case v.Type() == timeType:
		v.Set(reflect.ValueOf(genTime(&r, boundary)))
		return
	}
	switch v.Kind() {
	case reflect.Bool:
		v.SetBool(true)
	case reflect.String:
		if boundary {
			v.SetString(strLattice[r.intn(len(strLattice))])
		} else {
			v.SetString(randString(&r))
		}
	case reflect.Slice: // bytes
		var b []byte
		if boundary {
			b = []byte(strLattice[r.intn(len(strLattice))])
		} else {
			n := 1 + r.intn(12)
			b = make([]byte, n)
			for i := range b {
				b[i] = byte(r.next())
			}
		}
		v.Set(reflect.ValueOf(b).Convert(v.Type()))
	case reflect.Int32, reflect.Int64, reflect.Int:
		bits := v.Type().Bits()
		var n int64
		if len(a.EnumNumbers) > 0 && r.intn(5) != 0 {
			n = int64(a.EnumNumbers[r.intn(len(a.EnumNumbers))])
			if n == 0 && len(a.EnumNumbers) > 1 {
				n = int64(a.EnumNumbers[1+r.intn(len(a.EnumNumbers)-1)])
			}
		} else if boundary {
			min := int64(-1) << (bits - 1)
			max := -(min + 1)
			c := []int64{1, -1, 2, max, min, max - 1, min + 1, 127, -128, 255, 65535, int64(math.MaxInt32), int64(math.MinInt32)}
			if bits == 64 {
				c = append(c, int64(math.MaxInt32)+1, int64(math.MinInt32)-1, 1<<53, 1<<53+1, -(1<<53 + 1))
			}
			n = c[r.intn(len(c))]
		} else if r.intn(2) == 0 {
			n = int64(r.intn(2000)) - 1000
		} else {
			n = int64(r.next())
			if bits == 32 {
				n = int64(int32(n))
			}
		}
		if n == 0 {
			n = 7
		}
		v.SetInt(n)
	case reflect.Uint32, reflect.Uint64, reflect.Uint:
		bits := v.Type().Bits()
		var n uint64
		if boundary {
			c := []uint64{1, 2, 255, 65535, math.MaxInt32, math.MaxInt32 + 1, math.MaxUint32}
			if bits == 64 {
				c = append(c, math.MaxUint32+1, math.MaxInt64, math.MaxInt64+1, math.MaxUint64, math.MaxUint64-1, 1<<53+1)
			}
			n = c[r.intn(len(c))]
		} else if r.intn(2) == 0 {
			n = uint64(r.intn(2000))
		} else {
			n = r.next()
			if bits == 32 {
				n = uint64(uint32(n))
			}
		}
		if n == 0 {
			n = 7
		}
		v.SetUint(n)
	case reflect.Float32:
		var f float32
		if boundary {
			c := []float32{1.5, -2.25, math.MaxFloat32, -math.MaxFloat32, math.SmallestNonzeroFloat32, -math.SmallestNonzeroFloat32, 1e-40, 16777217, 0.1, 1.0 / 3.0}
			f = c[r.intn(len(c))]
		} else {
			for {
				f = math.Float32frombits(uint32(r.next()))
				if !math.IsNaN(float64(f)) && !math.IsInf(float64(f), 0) && f != 0 {
					break
				}
			}
		}
		v.SetFloat(float64(f))
	case reflect.Float64:
		var f float64
		if boundary {
			c := []float64{1.5, -2.25, math.MaxFloat64, -math.MaxFloat64, math.SmallestNonzeroFloat64, 5e-324, 9007199254740993, 0.1, 1.0 / 3.0, math.MaxFloat32 * 2}
			f = c[r.intn(len(c))]
		} else {
			for {
				f = math.Float64frombits(r.next())
				if !math.IsNaN(f) && !math.IsInf(f, 0) && f != 0 {
					break
				}
			}
		}
		v.SetFloat(f)
	default:
		panic(fmt.Sprintf("HARNESS: leaf kind %s at %s", v.Kind(), path))
	}
}

func randString(r *rng) string {
	n := 1 + r.intn(10)
	b := make([]byte, n)
	for i := range b {
		b[i] = byte('a' + r.intn(26))
	}
	return string(b)
}

func genTime(r *rng, boundary bool) time.Time {
	offs := []int{0, 3600, -3600, 14 * 3600, -14 * 3600, 5*3600 + 1800, -(9*3600 + 2700)}
	var loc *time.Location
	if o := offs[r.intn(len(offs))]; o == 0 {
		loc = time.UTC
	} else {
		loc = time.FixedZone("", o)
	}
	if boundary {
		c := []time.Time{
			time.Unix(0, 0).In(loc),
			{}, // the zero instant (also behind a non-nil pointer)
			time.Time{}.In(loc),
			time.Unix(1, 1).In(loc),
			time.Date(9999, 12, 31, 9, 59, 59, 999999999, loc),
			time.Date(1, 1, 2, 0, 0, 0, 1, loc),
			time.Date(2038, 1, 19, 3, 14, 8, 0, loc),
			time.Date(1969, 12, 31, 23, 59, 59, 999999999, loc),
		}
		return c[r.intn(len(c))]
	}
	sec := int64(r.next()%7258118400) - 315360000 // ~1960..2190
	return time.Unix(sec, int64(r.next()%1e9)).In(loc)
}

// fillAny stores some non-zero value into a custom-type field.
func fillAny(v reflect.Value, h uint64) {
	switch v.Kind() {
	case reflect.Ptr:
		p := reflect.New(v.Type().Elem())
		fillAny(p.Elem(), h)
		v.Set(p)
	case reflect.Bool:
		v.SetBool(true)
	case reflect.String:
		v.SetString(fmt.Sprintf("c%d", h%1000))
	case reflect.Int, reflect.Int32, reflect.Int64:
		v.SetInt(int64(h%1000) + 1)
	case reflect.Uint, reflect.Uint32, reflect.Uint64:
		v.SetUint(h%1000 + 1)
	case reflect.Float32, reflect.Float64:
		v.SetFloat(float64(h%1000) + 0.5)
	case reflect.Slice:
		n := int(h%3) + 1
		s := reflect.MakeSlice(v.Type(), n, n)
		for i := 0; i < n; i++ {
			fillAny(s.Index(i), mix(h+uint64(i)))
		}
		v.Set(s)
	case reflect.Struct:
		for i := 0; i < v.NumField(); i++ {
			if v.Field(i).CanSet() {
				fillAny(v.Field(i), mix(h+uint64(i)))
			}
		}
	}
}

package rt

import (
	"context"
	"fmt"
	"reflect"

	"github.com/hashicorp/terraform-plugin-framework/attr"
	"github.com/hashicorp/terraform-plugin-framework/tfsdk"
	"github.com/hashicorp/terraform-plugin-framework/types"
	"github.com/hashicorp/terraform-plugin-go/tftypes"

	"verif/rt/spec"
	"verif/rt/tfx"
)

func init() { monitors["C03"] = monC03 }

var leafValueType = map[string]reflect.Type{
	spec.LInt64:    reflect.TypeOf(types.Int64{}),
	spec.LFloat64:  reflect.TypeOf(types.Float64{}),
	spec.LBool:     reflect.TypeOf(types.Bool{}),
	spec.LString:   reflect.TypeOf(types.String{}),
	spec.LTime:     reflect.TypeOf(tfx.TimeValue{}),
	spec.LDuration: reflect.TypeOf(tfx.DurationValue{}),
}

var altValueType = map[string]reflect.Type{
	spec.LInt64:  reflect.TypeOf(tfx.AltInt64{}),
	spec.LBool:   reflect.TypeOf(tfx.AltBool{}),
	spec.LString: reflect.TypeOf(tfx.AltString{}),
}

// inputMode spreads the lattice modes over the input index.
func inputMode(i int) int {
	if i == 0 {
		return mZero
	}
	return i % (numModes - 1)
}

// problem is one conformance defect found while walking spec and object together.
type problem struct {
	fp   string
	path string
	msg  string
}

// conform walks spec and object together (C03 oracle).
func conform(ms *spec.Msg, obj types.Object, ot types.ObjectType, path string, out *[]problem) {
	ctx := context.Background()
	add := func(a *spec.Attr, kind, p, msg string) {
		*out = append(*out, problem{fp: kind + "/" + a.Class, path: p, msg: msg})
	}
	for _, a := range ms.Live() {
		p := path + "." + a.Attr
		av, ok := obj.Attrs[a.Attr]
		if !ok {
			add(a, "attr-absent", p, "attribute not present after CopyTo")
			continue
		}
		if av == nil {
			add(a, "attr-nil-interface", p, "nil attr.Value stored")
			continue
		}
		st, ok := ot.AttrTypes[a.Attr]
		if !ok {
			add(a, "schema-type-absent", p, "schema has no type for the attribute")
			continue
		}
		if !safeTypeEqual(av.Type(ctx), st) {
			add(a, "type-mismatch", p, fmt.Sprintf("value type %s, schema type %s", av.Type(ctx), st))
			continue
		}
		if av.IsUnknown() {
			add(a, "unknown", p, "unknown value after CopyTo")
		}
		checkLeaf := func(ev attr.Value, ep string) {
			want := leafValueType[a.Leaf]
			if a.Alt {
				want = altValueType[a.Leaf]
			}
			if a.Kind == spec.KCustom {
				want = reflect.TypeOf(types.String{})
			}
			if reflect.TypeOf(ev) != want {
				add(a, "go-value-type", ep, fmt.Sprintf("Go value type %T, want %s", ev, want))
			}
			if ev != nil && ev.IsUnknown() {
				add(a, "unknown", ep, "unknown value after CopyTo")
			}
		}
		switch a.Kind {
		case spec.KScalar, spec.KCustom:
			checkLeaf(av, p)
		case spec.KList, spec.KObjList:
			l, ok := av.(types.List)
			if !ok {
				add(a, "go-value-type", p, fmt.Sprintf("Go value type %T, want types.List", av))
				continue
			}
			if l.Null {
				continue
			}
			for i, e := range l.Elems {
				ep := fmt.Sprintf("%s[%d]", p, i)
				if e == nil {
					add(a, "attr-nil-interface", ep, "nil element stored")
					continue
				}
				if a.Kind == spec.KList {
					checkLeaf(e, ep)
					continue
				}
				eo, ok := e.(types.Object)
				if !ok {
					add(a, "go-value-type", ep, fmt.Sprintf("element type %T, want types.Object", e))
					continue
				}
				if eo.Unknown {
					add(a, "unknown", ep, "unknown element")
				}
				if !eo.Null && !eo.Unknown {
					eot, _ := l.ElemType.(types.ObjectType)
					conform(a.Msg, eo, eot, ep, out)
				}
			}
		case spec.KMap, spec.KObjMap:
			m, ok := av.(types.Map)
			if !ok {
				add(a, "go-value-type", p, fmt.Sprintf("Go value type %T, want types.Map", av))
				continue
			}
			if m.Null {
				continue
			}
			for k, e := range m.Elems {
				ep := fmt.Sprintf("%s{%s}", p, k)
				if e == nil {
					add(a, "attr-nil-interface", ep, "nil element stored")
					continue
				}
				if a.Kind == spec.KMap {
					checkLeaf(e, ep)
					continue
				}
				eo, ok := e.(types.Object)
				if !ok {
					add(a, "go-value-type", ep, fmt.Sprintf("element type %T, want types.Object", e))
					continue
				}
				if eo.Unknown {
					add(a, "unknown", ep, "unknown element")
				}
				if !eo.Null && !eo.Unknown {
					eot, _ := m.ElemType.(types.ObjectType)
					conform(a.Msg, eo, eot, ep, out)
				}
			}
		case spec.KObject:
			o, ok := av.(types.Object)
			if !ok {
				add(a, "go-value-type", p, fmt.Sprintf("Go value type %T, want types.Object", av))
				continue
			}
			if !o.Null && !o.Unknown {
				sot, _ := st.(types.ObjectType)
				conform(a.Msg, o, sot, p, out)
			}
		}
	}
	if ms.Placeholder {
		// placeholder attribute
		if av, ok := obj.Attrs["active"]; !ok || av == nil {
			*out = append(*out, problem{fp: "attr-absent/placeholder", path: path + ".active", msg: "placeholder attribute not present"})
		} else if av.IsUnknown() {
			*out = append(*out, problem{fp: "unknown/placeholder", path: path + ".active", msg: "placeholder unknown"})
		}
	}
}

func safeTypeEqual(a, b attr.Type) (eq bool) {
	defer func() {
		if recover() != nil {
			eq = false
		}
	}()
	if a == nil || b == nil {
		return false
	}
	return a.Equal(b)
}

// fillInjected completes the injected attributes (which the converters never
// touch) with typed nulls, at every level.
func fillInjected(ms *spec.Msg, obj *types.Object) {
	ctx := context.Background()
	for _, inj := range ms.Injected {
		if _, ok := obj.Attrs[inj.Name]; ok {
			continue
		}
		if t, ok := obj.AttrTypes[inj.Name]; ok {
			v, err := t.ValueFromTerraform(ctx, tftypes.NewValue(t.TerraformType(ctx), nil))
			if err == nil {
				obj.Attrs[inj.Name] = v
			}
		}
	}
	for _, a := range ms.Live() {
		if a.Msg == nil {
			continue
		}
		switch v := obj.Attrs[a.Attr].(type) {
		case types.Object:
			if !v.Null && !v.Unknown && v.Attrs != nil {
				fillInjected(a.Msg, &v)
				obj.Attrs[a.Attr] = v
			}
		case types.List:
			for i, e := range v.Elems {
				if eo, ok := e.(types.Object); ok && !eo.Null && !eo.Unknown && eo.Attrs != nil {
					fillInjected(a.Msg, &eo)
					v.Elems[i] = eo
				}
			}
		case types.Map:
			for k, e := range v.Elems {
				if eo, ok := e.(types.Object); ok && !eo.Null && !eo.Unknown && eo.Attrs != nil {
					fillInjected(a.Msg, &eo)
					v.Elems[k] = eo
				}
			}
		}
	}
}

// frameworkAccepts runs the three acceptance checks of C03 on a completed object.
func frameworkAccepts(s tfsdk.Schema, obj types.Object) (fp, msg string) {
	ctx := context.Background()
	defer func() {
		if r := recover(); r != nil {
			fp, msg = "framework-panic", fmt.Sprint(r)
		}
	}()
	val, err := obj.ToTerraformValue(ctx)
	if err != nil {
		return "to-terraform-value", err.Error()
	}
	want := s.TerraformType(ctx)
	if !val.Type().Equal(want) {
		return "terraform-type", fmt.Sprintf("terraform type %s, schema wants %s", val.Type(), want)
	}
	if _, err := s.AttributeType().ValueFromTerraform(ctx, val); err != nil {
		return "value-from-terraform", err.Error()
	}
	st := tfsdk.State{Schema: s, Raw: tftypes.NewValue(want, nil)}
	if d := st.Set(ctx, &obj); d.HasError() {
		return "state-set", fmt.Sprint(d)
	}
	return "", ""
}

func monC03(x *Ctx) {
	s, so := x.Schema()
	if so.Panic != nil || so.Diags.HasError() {
		x.Violate("schema-failed", "-", fmt.Sprintf("GenSchema failed: %v %v", so.Panic, so.Diags), nil)
		return
	}
	ot := s.AttributeType().(types.ObjectType)
	n := x.Budget(150, 1500)
	for i := 0; i < n; i++ {
		in := fmt.Sprintf("v%d", i)
		p, sig := x.NewValue(in, inputMode(i))
		obj, err := emptyObject(s)
		if err != nil {
			x.Violate("schema-type", in, err.Error(), nil)
			return
		}
		x.Eval(1)
		x.Distinct(sig)
		out := x.CopyTo(p, &obj)
		if i == 1 {
			x.Sample(map[string]interface{}{"case": x.Case.Name, "type": x.Root.Name, "input": in, "struct": x.DumpStruct(p, dumpOpt{}), "object": dumpTF(obj)})
		}
		if out.Panic != nil {
			x.Violate(panicFP("CopyTo", out)+"/"+x.nilEmbedClass(p), in, "CopyTo panicked", map[string]interface{}{"panic": panicDetail(out), "struct": x.DumpStruct(p, dumpOpt{})})
			continue
		}
		if e := out.errs(); len(e) > 0 {
			x.Violate("error-diag", in, "CopyTo returned error diagnostics", map[string]interface{}{"diags": e, "struct": x.DumpStruct(p, dumpOpt{})})
			continue
		}
		var probs []problem
		conform(x.Root, obj, ot, x.Root.Name, &probs)
		for _, pr := range probs {
			x.Violate("conform/"+pr.fp, in, pr.path+": "+pr.msg, map[string]interface{}{"struct": x.DumpStruct(p, dumpOpt{}), "object": dumpTF(obj)})
		}
		if len(probs) > 0 {
			continue
		}
		fillInjected(x.Root, &obj)
		if fp, msg := frameworkAccepts(s, obj); fp != "" {
			x.Violate("accept/"+fp, in, msg, map[string]interface{}{"struct": x.DumpStruct(p, dumpOpt{}), "object": dumpTF(obj)})
		}
	}
}

// nilEmbedClass names the input class relevant to panics: whether some
// nullable embed is nil in the value and, if so, whether that embed has
// children that are collections or messages.
func (x *Ctx) nilEmbedClass(p interface{}) string {
	cls := "no-nil-embed"
	var walk func(mv reflect.Value, ms *spec.Msg)
	walk = func(mv reflect.Value, ms *spec.Msg) {
		for _, a := range ms.Attrs {
			f, st := getField(mv, a)
			if st == fEmbedNil {
				if a.Kind != spec.KScalar {
					cls = "nil-embed-with-collection-message-or-custom-child"
				} else if cls == "no-nil-embed" {
					cls = "nil-embed"
				}
				continue
			}
			if st != fOK || a.Msg == nil {
				continue
			}
			switch a.Kind {
			case spec.KObject:
				if f.Kind() == reflect.Ptr {
					if f.IsNil() {
						continue
					}
					f = f.Elem()
				}
				walk(f, a.Msg)
			case spec.KObjList:
				for i := 0; i < f.Len(); i++ {
					e := f.Index(i)
					if e.Kind() == reflect.Ptr {
						if e.IsNil() {
							continue
						}
						e = e.Elem()
					}
					walk(e, a.Msg)
				}
			case spec.KObjMap:
				it := f.MapRange()
				for it.Next() {
					e := it.Value()
					if e.Kind() == reflect.Ptr {
						if e.IsNil() {
							continue
						}
						e = e.Elem()
					} else {
						c := reflect.New(e.Type()).Elem()
						c.Set(e)
						e = c
					}
					walk(e, a.Msg)
				}
			}
		}
	}
	walk(reflect.ValueOf(p).Elem(), x.Root)
	return cls
}

// embedTypeClass is the static class of the root type relevant to CopyFrom
// panics: whether some nullable embed has collection or message children.
func (x *Ctx) embedTypeClass() string {
	cls := "no-nullable-embed"
	var walk func(ms *spec.Msg)
	walk = func(ms *spec.Msg) {
		for _, a := range ms.Attrs {
			if a.InEmbedPtr() {
				if a.Kind != spec.KScalar {
					cls = "type-has-nullable-embed-with-collection-message-or-custom-child"
				} else if cls == "no-nullable-embed" {
					cls = "type-has-nullable-embed"
				}
			}
			if a.Msg != nil {
				walk(a.Msg)
			}
		}
	}
	walk(x.Root)
	return cls
}

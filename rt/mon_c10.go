package rt

import (
	"fmt"
	"github.com/hashicorp/terraform-plugin-framework/attr"
	"reflect"
	"sort"
	"strings"

	"github.com/hashicorp/terraform-plugin-framework/tfsdk"
	"github.com/hashicorp/terraform-plugin-framework/types"

	"verif/rt/spec"
	"verif/rt/tfx"
)

func init() {
	monitors["C10"] = monC10
	monitors["C17"] = monC17
}

func validatorIDs(vs []tfsdk.AttributeValidator) []string {
	var out []string
	for _, v := range vs {
		if t, ok := v.(tfx.Validator); ok {
			out = append(out, t.ID)
		} else {
			out = append(out, fmt.Sprintf("%T", v))
		}
	}
	return out
}

func planModIDs(ps tfsdk.AttributePlanModifiers) []string {
	var out []string
	for _, p := range ps {
		if t, ok := p.(tfx.PlanMod); ok {
			out = append(out, t.ID)
		} else if strings.Contains(fmt.Sprintf("%T", p), "UseStateForUnknown") {
			out = append(out, "USFU")
		} else {
			out = append(out, fmt.Sprintf("%T", p))
		}
	}
	return out
}

func sameList(a, b []string) bool {
	if len(a) == 0 && len(b) == 0 {
		return true
	}
	return reflect.DeepEqual(a, b)
}

// flagProblems compares the flags and metadata of one schema attribute with the model.
func flagProblems(a *spec.Attr, sa tfsdk.Attribute, p string, out *[]problem) {
	add := func(kind, msg string) { *out = append(*out, problem{fp: "flags/" + kind, path: p, msg: msg}) }
	if sa.Required == sa.Optional {
		add("required-xor-optional", fmt.Sprintf("Required=%v Optional=%v: exactly one must be set", sa.Required, sa.Optional))
	}
	if sa.Required != a.Required {
		add(fmt.Sprintf("required/want=%v", a.Required), fmt.Sprintf("Required=%v, configuration says %v", sa.Required, a.Required))
	}
	if sa.Computed != a.Computed {
		add(fmt.Sprintf("computed/want=%v", a.Computed), fmt.Sprintf("Computed=%v, configuration says %v", sa.Computed, a.Computed))
	}
	if sa.Sensitive != a.Sensitive {
		add(fmt.Sprintf("sensitive/want=%v", a.Sensitive), fmt.Sprintf("Sensitive=%v, configuration says %v", sa.Sensitive, a.Sensitive))
	}
	if got := validatorIDs(sa.Validators); !sameList(got, a.Validators) {
		add("validators", fmt.Sprintf("validators %v, configured %v", got, a.Validators))
	}
	if got := planModIDs(sa.PlanModifiers); !sameList(got, a.PlanModifiers) {
		kind := "plan-modifiers"
		if len(a.PlanModifiers) == 1 && a.PlanModifiers[0] == "USFU" || len(got) == 1 && got[0] == "USFU" {
			kind = "plan-modifiers/use-state-for-unknown-default"
		}
		add(kind, fmt.Sprintf("plan modifiers %v, expected %v", got, a.PlanModifiers))
	}
	if sa.Description != a.Description {
		add("description", fmt.Sprintf("description %q, flattened comment %q", sa.Description, a.Description))
	}
}

func (x *Ctx) flagsWalk(ms *spec.Msg, attrs map[string]tfsdk.Attribute, path string, out *[]problem) {
	// attributes that stem neither from a field nor from the injected_fields entry of this path
	expected := map[string]bool{}
	for _, a := range ms.Live() {
		expected[a.Attr] = true
	}
	for _, i := range ms.Injected {
		expected[i.Name] = true
	}
	if ms.Placeholder {
		expected["active"] = true
	}
	var extra []string
	for n := range attrs {
		if !expected[n] {
			extra = append(extra, n)
		}
	}
	sort.Strings(extra)
	for _, n := range extra {
		*out = append(*out, problem{fp: "injected/unconfigured-attribute", path: path + "." + n, msg: "attribute stems neither from a field nor from an injected_fields entry of this path"})
	}
	for _, a := range ms.Live() {
		sa, ok := attrs[a.Attr]
		if !ok {
			continue // C02
		}
		p := path + "." + a.Attr
		x.Count("attributes-judged", 1)
		sig := fmt.Sprintf("%s/r%v/c%v/s%v/v%d/p%d/d%v", a.Path, a.Required, a.Computed, a.Sensitive, len(a.Validators), len(a.PlanModifiers), a.HasComment)
		x.Distinct(sig)
		flagProblems(a, sa, p, out)
		if a.Msg != nil && sa.Attributes != nil && a.Kind != spec.KCustom {
			x.flagsWalk(a.Msg, sa.Attributes.GetAttributes(), p, out)
		}
	}
	for _, i := range ms.Injected {
		sa, ok := attrs[i.Name]
		p := path + "." + i.Name
		if !ok {
			*out = append(*out, problem{fp: "injected/missing", path: p, msg: "injected attribute is not in the schema"})
			continue
		}
		x.Count("injected-judged", 1)
		if wt := injectedType(i.Type); wt != nil && !safeTypeEqual(sa.Type, wt) {
			*out = append(*out, problem{fp: "injected/type", path: p, msg: fmt.Sprintf("type %v, configured %v", sa.Type, wt)})
		}
		if sa.Required != i.Required || sa.Computed != i.Computed || sa.Optional != i.Optional {
			*out = append(*out, problem{fp: "injected/flags", path: p, msg: fmt.Sprintf("required/computed/optional = %v/%v/%v, configured %v/%v/%v", sa.Required, sa.Computed, sa.Optional, i.Required, i.Computed, i.Optional)})
		}
		if got := validatorIDs(sa.Validators); !sameList(got, i.Validators) {
			*out = append(*out, problem{fp: "injected/validators", path: p, msg: fmt.Sprintf("validators %v, configured %v", got, i.Validators)})
		}
		if got := planModIDs(sa.PlanModifiers); !sameList(got, i.PlanModifiers) {
			*out = append(*out, problem{fp: "injected/plan-modifiers", path: p, msg: fmt.Sprintf("plan modifiers %v, configured %v", got, i.PlanModifiers)})
		}
	}
	if ms.Placeholder {
		p := path + ".active"
		sa, ok := attrs["active"]
		switch {
		case !ok || (ms.Empty && len(attrs) != 1+len(ms.Injected)):
			*out = append(*out, problem{fp: "placeholder/shape", path: p, msg: fmt.Sprintf("an empty message must show exactly the attribute `active` (have %d attributes)", len(attrs))})
		case !safeTypeEqual(sa.Type, types.BoolType) || !sa.Computed:
			*out = append(*out, problem{fp: "placeholder/flags", path: p, msg: fmt.Sprintf("placeholder type %v computed=%v, want Bool computed", sa.Type, sa.Computed)})
		default:
			x.Count("placeholders-judged", 1)
		}
	}
}

// injectedUntouched checks that no converter output carries an injected attribute.
func injectedUntouched(ms *spec.Msg, obj types.Object, path string, out *[]problem) {
	for _, i := range ms.Injected {
		if _, ok := obj.Attrs[i.Name]; ok {
			*out = append(*out, problem{fp: "injected/written-by-CopyTo", path: path + "." + i.Name, msg: "CopyTo emitted an injected attribute"})
		}
	}
	for _, a := range ms.Live() {
		if a.Msg == nil {
			continue
		}
		switch t := obj.Attrs[a.Attr].(type) {
		case types.Object:
			if !t.Null && !t.Unknown {
				injectedUntouched(a.Msg, t, path+"."+a.Attr, out)
			}
		case types.List:
			for _, e := range t.Elems {
				if eo, ok := e.(types.Object); ok && !eo.Null && !eo.Unknown {
					injectedUntouched(a.Msg, eo, path+"."+a.Attr+"[]", out)
				}
			}
		case types.Map:
			for _, e := range t.Elems {
				if eo, ok := e.(types.Object); ok && !eo.Null && !eo.Unknown {
					injectedUntouched(a.Msg, eo, path+"."+a.Attr+"{}", out)
				}
			}
		}
	}
}

func monC10(x *Ctx) {
	s, ok := x.schemaOrViolate()
	if !ok {
		return
	}
	x.Eval(1)
	var probs []problem
	x.flagsWalk(x.Root, s.Attributes, x.Root.Name, &probs)
	// injected attributes have no counterpart in the converters
	empty, _ := emptyObject(s)
	for i := 0; i < 3; i++ {
		p, _ := x.NewValue(fmt.Sprintf("v%d", i), mDense)
		obj := empty
		obj.Attrs = nil
		x.Eval(1)
		if out := x.CopyTo(p, &obj); out.Panic == nil {
			injectedUntouched(x.Root, obj, x.Root.Name, &probs)
		}
	}
	for _, pr := range probs {
		x.Violate(pr.fp, "schema", pr.path+": "+pr.msg, nil)
	}
	var sample []string
	for _, a := range x.Root.Live() {
		if a.Required || a.Computed || a.Sensitive || len(a.Validators) > 0 || len(a.PlanModifiers) > 0 {
			sample = append(sample, fmt.Sprintf("%s: required=%v computed=%v sensitive=%v validators=%v plan_modifiers=%v description=%q", a.Path, a.Required, a.Computed, a.Sensitive, a.Validators, a.PlanModifiers, a.Description))
		}
	}
	if len(sample) > 0 {
		x.Sample(map[string]interface{}{"case": x.Case.Name, "type": x.Root.Name, "flagged_attributes": sample})
	}
}

// ---------------------------------------------------------------------------
// C17 custom-type hooks

type customOcc struct {
	a     *spec.Attr
	chain []*spec.Attr // single-object nesting only
}

func customOccurrences(ms *spec.Msg, chain []*spec.Attr, out *[]customOcc, all *int) {
	for _, a := range ms.Live() {
		if a.Kind == spec.KCustom {
			*out = append(*out, customOcc{a: a, chain: append([]*spec.Attr(nil), chain...)})
		}
		if a.Msg != nil && a.Kind == spec.KObject && a.Oneof == nil {
			customOccurrences(a.Msg, append(append([]*spec.Attr(nil), chain...), a), out, all)
		}
	}
}

func allCustom(ms *spec.Msg, out *[]*spec.Attr) {
	for _, a := range ms.Live() {
		if a.Kind == spec.KCustom {
			*out = append(*out, a)
		} else if a.Msg != nil {
			allCustom(a.Msg, out)
		}
	}
}

func hookSig(suffix, desc string, req, opt, comp, sens bool, vals, pms []string) string {
	return fmt.Sprintf("%s|%q|req=%v opt=%v comp=%v sens=%v|%v|%v", suffix, desc, req, opt, comp, sens, vals, pms)
}

func monC17(x *Ctx) {
	var customs []*spec.Attr
	allCustom(x.Root, &customs)
	if len(customs) == 0 {
		return
	}
	s, so := x.Schema()
	if so.Panic != nil || so.Diags.HasError() {
		x.Violate("schema-failed", "-", fmt.Sprintf("GenSchema failed: %v %v", so.Panic, so.Diags), nil)
		return
	}
	x.Eval(1)
	// --- schema: one GenSchema<S> call per custom field with the model's description and flags
	var want, got []string
	for _, a := range customs {
		want = append(want, hookSig(a.CustomSuffix, a.Description, a.Required, !a.Required, a.Computed, a.Sensitive, a.Validators, a.PlanModifiers))
	}
	for _, c := range so.Hooks {
		if c.Hook != "GenSchema" {
			continue
		}
		got = append(got, hookSig(c.Suffix, c.Attr.Description, c.Attr.Required, c.Attr.Optional, c.Attr.Computed, c.Attr.Sensitive, validatorIDs(c.Attr.Validators), planModIDs(c.Attr.PlanModifiers)))
	}
	sort.Strings(want)
	sort.Strings(got)
	if !reflect.DeepEqual(want, got) {
		x.Violate("schema/hook-calls", "schema", fmt.Sprintf("GenSchema hook calls %v, want %v", got, want), nil)
	}
	// every call of GenSchema<T> delegates anew (a schema kept from an earlier call would hand out what the hooks
	// returned to another caller)
	if _, so2 := x.Schema(); so2.Panic == nil {
		var again []string
		for _, c := range so2.Hooks {
			if c.Hook == "GenSchema" {
				again = append(again, hookSig(c.Suffix, c.Attr.Description, c.Attr.Required, c.Attr.Optional, c.Attr.Computed, c.Attr.Sensitive, validatorIDs(c.Attr.Validators), planModIDs(c.Attr.PlanModifiers)))
			}
		}
		sort.Strings(again)
		x.Eval(1)
		if !reflect.DeepEqual(want, again) {
			x.Violate("schema/hook-calls/second-call", "schema", fmt.Sprintf("GenSchema hook calls of a second GenSchema call %v, want %v", again, want), nil)
		}
	}
	x.Count("custom-fields", len(customs))
	empty, _ := emptyObject(s)
	var occs []customOcc
	n := 0
	customOccurrences(x.Root, nil, &occs, &n)
	mt := rootStructType(x)
	N := x.Budget(60, 600)
	for i := 0; i < N; i++ {
		in := fmt.Sprintf("v%d", i)
		// ---- CopyTo ----------------------------------------------------------------
		p, _ := x.NewValue(in, mDense)
		obj := empty
		obj.Attrs = nil
		var prior types.Object
		hasPrior := i%2 == 1
		if hasPrior {
			// second call on the same object: the current attribute value must be handed to the hook
			p0, _ := x.NewValue(in+"/first", mDense)
			if o := x.CopyTo(p0, &obj); o.Panic != nil {
				continue
			}
			// attribute states of the target: the current value of a custom attribute may be unknown or null
			// (a plan's computed attribute, a state's null); whatever it is, it is what the hook must receive
			switch i % 16 {
			case 5:
				setCustomState(obj, x.Root, types.String{Unknown: true})
				x.Count("to-calls-with-unknown-current-value", 1)
			case 13:
				setCustomState(obj, x.Root, types.String{Null: true})
				x.Count("to-calls-with-null-current-value", 1)
			}
			// the target's own flags say nothing about its attributes: a hand-built target flagged unknown / null that
			// still carries them has current values like any other
			switch i % 32 {
			case 9:
				obj.Unknown = true
				x.Count("to-calls-on-flagged-target", 1)
			case 25:
				obj.Null = true
				x.Count("to-calls-on-flagged-target", 1)
			}
			prior = deepCopyTF(obj).(types.Object)
		}
		x.Eval(1)
		// every fourth call the hooks return nil: the nil is what must be stored (over whatever was there)
		nilMode := i%4 == 3 || i%8 == 2
		tfx.NilResults = nilMode
		out := x.CopyTo(p, &obj)
		tfx.NilResults = false
		if out.Panic != nil {
			x.Violate(panicFP("CopyTo", out)+"/"+x.nilEmbedClass(p), in, "CopyTo panicked", map[string]interface{}{"panic": panicDetail(out)})
			continue
		}
		if nilMode {
			x.Count("to-calls-with-nil-hook-results", 1)
		}
		for _, oc := range occs {
			// locate struct level and object level
			mv := reflect.ValueOf(p).Elem()
			o, po := obj, prior
			reach := true
			for _, c := range oc.chain {
				f, st := getField(mv, c)
				if st != fOK {
					reach = false
					break
				}
				if f.Kind() == reflect.Ptr {
					if f.IsNil() {
						reach = false
						break
					}
					f = f.Elem()
				}
				mv = f
				no, ok := o.Attrs[c.Attr].(types.Object)
				if !ok {
					reach = false
					break
				}
				o = no
				if hasPrior {
					pp, _ := po.Attrs[c.Attr].(types.Object)
					po = pp
				}
			}
			if !reach {
				continue
			}
			a := oc.a
			f, st := getField(mv, a)
			if st != fOK {
				continue
			}
			x.Distinct(fmt.Sprintf("to/%s/prior=%v", a.Path, hasPrior))
			var calls []tfx.HookCall
			for _, c := range out.Hooks {
				if c.Hook == "CopyTo" && c.Suffix == a.CustomSuffix && reflect.DeepEqual(c.Field, f.Interface()) {
					calls = append(calls, c)
				}
			}
			if len(calls) == 0 {
				x.Violate("to/no-hook-call/"+a.Class, in, fmt.Sprintf("no CopyTo%s call carrying the value of %s (calls: %d)", a.CustomSuffix, a.Path, len(out.Hooks)), nil)
				continue
			}
			x.Count("to-hook-calls-judged", 1)
			okCall := false
			var why string
			for _, c := range calls {
				wantT := o.AttrTypes[a.Attr]
				var cur interface{}
				if hasPrior && po.Attrs != nil {
					cur = po.Attrs[a.Attr]
				}
				switch {
				case !safeTypeEqual(c.Type, wantT):
					why = fmt.Sprintf("attribute type argument %v, want %v", c.Type, wantT)
				case !reflect.DeepEqual(dumpIface(c.Current), dumpIface(cur)):
					why = fmt.Sprintf("current value argument %v, want %v", dumpIface(c.Current), dumpIface(cur))
				case !reflect.DeepEqual(o.Attrs[a.Attr], c.Returned):
					why = fmt.Sprintf("stored value %v is not the hook's return value %v", dumpIface(o.Attrs[a.Attr]), dumpIface(c.Returned))
				case nilMode && !hasKey(o.Attrs, a.Attr):
					why = "the hook's (nil) return value was not stored: the attribute is absent"
				default:
					okCall = true
				}
			}
			if !okCall {
				x.Violate("to/hook-contract/"+a.Class, in, a.Path+": "+why, nil)
			}
		}
		// ---- CopyFrom --------------------------------------------------------------
		_, plan, err := x.Plan(s, in, pMostlyKnown)
		if err != nil {
			x.Res.Harness = append(x.Res.Harness, err.Error())
			return
		}
		q, _ := x.NewValue(in+"/target", mDense)
		beforeQ := x.DumpStruct(q, dumpOpt{})
		x.Eval(1)
		fo := x.CopyFrom(plan, q)
		if fo.Panic != nil {
			x.Violate(panicFP("CopyFrom", fo)+"/"+x.embedTypeClass(), in, "CopyFrom panicked", map[string]interface{}{"panic": panicDetail(fo)})
			continue
		}
		afterQ := x.DumpStruct(q, dumpOpt{})
		for _, oc := range occs {
			if len(oc.chain) > 0 {
				continue // pointer identity is judged at the root level
			}
			a := oc.a
			f, st := getField(reflect.ValueOf(q).Elem(), a)
			if st != fOK || !f.CanAddr() {
				continue
			}
			x.Distinct("from/" + a.Path)
			n := 0
			for _, c := range fo.Hooks {
				if c.Hook != "CopyFrom" || c.Suffix != a.CustomSuffix {
					continue
				}
				if reflect.ValueOf(c.Ptr).Pointer() == f.Addr().Pointer() {
					n++
					if !reflect.DeepEqual(dumpIface(c.Value), dumpIface(plan.Attrs[a.Attr])) {
						x.Violate("from/hook-value/"+a.Class, in, fmt.Sprintf("%s: hook received %v, attribute is %v", a.Path, dumpIface(c.Value), dumpIface(plan.Attrs[a.Attr])), nil)
					}
				}
			}
			x.Count("from-hook-calls-judged", 1)
			if n != 1 {
				x.Violate("from/hook-call-count/"+a.Class, in, fmt.Sprintf("%s: %d CopyFrom%s calls with a pointer to the field, want 1", a.Path, n, a.CustomSuffix), nil)
			}
			if !reflect.DeepEqual(beforeQ[akey(a)], afterQ[akey(a)]) {
				x.Violate("from/field-written/"+a.Class, in, a.Path+": the generated code changed the custom field itself", nil)
			}
		}
		// a missing attribute is still reported
		if len(occs) > 0 && len(occs[0].chain) == 0 {
			a := occs[i%len(occs)].a
			if len(occs[i%len(occs)].chain) == 0 {
				broken := mutate(plan, nil, func(o *types.Object) { delete(o.Attrs, a.Attr) })
				q2 := x.T.New()
				x.Eval(1)
				mo := x.CopyFrom(broken, q2)
				found := false
				for _, e := range errorDiags(mo.Diags) {
					if strings.Contains(e, a.Path) && strings.Contains(e, "is missing") {
						found = true
					}
				}
				if mo.Panic != nil || !found {
					x.Violate("from/missing-not-reported/"+a.Class, in, fmt.Sprintf("%s: missing attribute not reported (panic=%v diags=%v)", a.Path, mo.Panic, errorDiags(mo.Diags)), nil)
				}
			}
		}
	}
	_ = mt
	if len(customs) > 0 {
		a := customs[0]
		x.Sample(map[string]interface{}{"case": x.Case.Name, "type": x.Root.Name, "custom_field": a.Path, "custom_type": a.CustomType, "expected_suffix": a.CustomSuffix, "hooks": []string{"GenSchema" + a.CustomSuffix, "CopyFrom" + a.CustomSuffix, "CopyTo" + a.CustomSuffix}})
	}
}

// setCustomState replaces the value of every custom attribute reachable through single known objects.
func setCustomState(o types.Object, ms *spec.Msg, v attr.Value) {
	if o.Attrs == nil {
		return
	}
	for _, a := range ms.Live() {
		if a.Kind == spec.KCustom {
			if _, ok := o.Attrs[a.Attr]; ok {
				o.Attrs[a.Attr] = v
			}
			continue
		}
		if a.Msg != nil && a.Kind == spec.KObject && a.Oneof == nil {
			if no, ok := o.Attrs[a.Attr].(types.Object); ok && !no.Null && !no.Unknown {
				setCustomState(no, a.Msg, v)
			}
		}
	}
}

func dumpIface(v interface{}) interface{} {
	if v == nil {
		return "<nil>"
	}
	if av, ok := v.(attrValue); ok {
		return dumpTF(av)
	}
	return fmt.Sprintf("%#v", v)
}

func hasKey(m map[string]attr.Value, k string) bool {
	_, ok := m[k]
	return ok
}

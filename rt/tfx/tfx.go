// Package tfx holds the harness-owned Terraform types the generated code is
// configured to use (time, duration), identifiable validators / plan modifiers,
// cast target types with an import path, and the recording custom-type hooks.
package tfx

import (
	"context"
	"fmt"
	"reflect"
	"time"

	"github.com/hashicorp/terraform-plugin-framework/attr"
	"github.com/hashicorp/terraform-plugin-framework/diag"
	"github.com/hashicorp/terraform-plugin-framework/tfsdk"
	"github.com/hashicorp/terraform-plugin-framework/types"
	"github.com/hashicorp/terraform-plugin-go/tftypes"
)

// TimeType is the attr.Type for time.Time fields (stored as a string).
type TimeType struct {
	Format string
}

// TimeFormat is the lossless format used by the harness.
const TimeFormat = time.RFC3339Nano

// UseRFC3339Time is the configured type_constructor.
func UseRFC3339Time() TimeType { return TimeType{Format: TimeFormat} }

func (t TimeType) format() string {
	if t.Format == "" {
		return TimeFormat
	}
	return t.Format
}

func (t TimeType) ApplyTerraform5AttributePathStep(step tftypes.AttributePathStep) (interface{}, error) {
	return nil, fmt.Errorf("cannot apply AttributePathStep %T to %s", step, t.String())
}
func (t TimeType) String() string { return "tfx.TimeType(" + t.Format + ")" }
func (t TimeType) Equal(o attr.Type) bool {
	other, ok := o.(TimeType)
	return ok && t == other
}
func (t TimeType) TerraformType(context.Context) tftypes.Type { return tftypes.String }
func (t TimeType) ValueFromTerraform(_ context.Context, in tftypes.Value) (attr.Value, error) {
	if !in.IsKnown() {
		return TimeValue{Unknown: true, Format: t.Format}, nil
	}
	if in.IsNull() {
		return TimeValue{Null: true, Format: t.Format}, nil
	}
	var raw string
	if err := in.As(&raw); err != nil {
		return nil, err
	}
	v, err := time.Parse(t.format(), raw)
	if err != nil {
		return nil, err
	}
	return TimeValue{Value: v, Format: t.Format}, nil
}

// TimeValue is the attr.Value of TimeType.
type TimeValue struct {
	Unknown bool
	Null    bool
	Value   time.Time
	Format  string
}

func (t TimeValue) Type(context.Context) attr.Type { return TimeType{Format: t.Format} }
func (t TimeValue) ToTerraformValue(context.Context) (tftypes.Value, error) {
	if t.Null {
		return tftypes.NewValue(tftypes.String, nil), nil
	}
	if t.Unknown {
		return tftypes.NewValue(tftypes.String, tftypes.UnknownValue), nil
	}
	return tftypes.NewValue(tftypes.String, t.Value.Format(TimeType{Format: t.Format}.format())), nil
}
func (t TimeValue) Equal(other attr.Value) bool {
	o, ok := other.(TimeValue)
	if !ok || t.Unknown != o.Unknown || t.Null != o.Null {
		return false
	}
	return t.Value.Equal(o.Value)
}
func (t TimeValue) IsNull() bool    { return t.Null }
func (t TimeValue) IsUnknown() bool { return t.Unknown }
func (t TimeValue) String() string {
	if t.Unknown {
		return attr.UnknownValueString
	}
	if t.Null {
		return attr.NullValueString
	}
	return t.Value.String()
}

// DurationType is the attr.Type for duration fields (stored as a string).
type DurationType struct {
	Tag string
}

// UseDuration is the configured type_constructor for durations.
func UseDuration() DurationType { return DurationType{Tag: "ctor"} }

func (t DurationType) ApplyTerraform5AttributePathStep(step tftypes.AttributePathStep) (interface{}, error) {
	return nil, fmt.Errorf("cannot apply AttributePathStep %T to %s", step, t.String())
}
func (t DurationType) String() string { return "tfx.DurationType(" + t.Tag + ")" }
func (t DurationType) Equal(o attr.Type) bool {
	other, ok := o.(DurationType)
	return ok && t == other
}
func (t DurationType) TerraformType(context.Context) tftypes.Type { return tftypes.String }
func (t DurationType) ValueFromTerraform(_ context.Context, in tftypes.Value) (attr.Value, error) {
	if !in.IsKnown() {
		return DurationValue{Unknown: true, Tag: t.Tag}, nil
	}
	if in.IsNull() {
		return DurationValue{Null: true, Tag: t.Tag}, nil
	}
	var raw string
	if err := in.As(&raw); err != nil {
		return nil, err
	}
	v, err := time.ParseDuration(raw)
	if err != nil {
		return nil, err
	}
	return DurationValue{Value: v, Tag: t.Tag}, nil
}

// DurationValue is the attr.Value of DurationType.
type DurationValue struct {
	Unknown bool
	Null    bool
	Value   time.Duration
	Tag     string
}

func (t DurationValue) Type(context.Context) attr.Type { return DurationType{Tag: t.Tag} }
func (t DurationValue) ToTerraformValue(context.Context) (tftypes.Value, error) {
	if t.Null {
		return tftypes.NewValue(tftypes.String, nil), nil
	}
	if t.Unknown {
		return tftypes.NewValue(tftypes.String, tftypes.UnknownValue), nil
	}
	return tftypes.NewValue(tftypes.String, t.Value.String()), nil
}
func (t DurationValue) Equal(other attr.Value) bool {
	o, ok := other.(DurationValue)
	if !ok || t.Unknown != o.Unknown || t.Null != o.Null {
		return false
	}
	return t.Value == o.Value
}
func (t DurationValue) IsNull() bool    { return t.Null }
func (t DurationValue) IsUnknown() bool { return t.Unknown }
func (t DurationValue) String() string {
	if t.Unknown {
		return attr.UnknownValueString
	}
	if t.Null {
		return attr.NullValueString
	}
	return t.Value.String()
}

// Validator is an identifiable attribute validator.
type Validator struct{ ID string }

// V returns the validator with the given id.
func V(id string) tfsdk.AttributeValidator { return Validator{ID: id} }

func (v Validator) Description(context.Context) string         { return "validator " + v.ID }
func (v Validator) MarkdownDescription(context.Context) string { return "validator " + v.ID }
func (v Validator) Validate(context.Context, tfsdk.ValidateAttributeRequest, *tfsdk.ValidateAttributeResponse) {
}

// PlanMod is an identifiable plan modifier.
type PlanMod struct{ ID string }

// PM returns the plan modifier with the given id.
func PM(id string) tfsdk.AttributePlanModifier { return PlanMod{ID: id} }

func (p PlanMod) Description(context.Context) string         { return "planmod " + p.ID }
func (p PlanMod) MarkdownDescription(context.Context) string { return "planmod " + p.ID }
func (p PlanMod) Modify(context.Context, tfsdk.ModifyAttributePlanRequest, *tfsdk.ModifyAttributePlanResponse) {
}

// Cast target types reachable through an import path (casttype "verif/rt/tfx.XString").
type (
	XString string
	XBytes  []byte
	XBool   bool
	XInt32  int32
	XInt64  int64
	XFloat  float32
)

// Custom types for gogoproto.customtype fields (import-path form).
type (
	XCustom  struct{ V string }
	XCustomB bool
)

// HookCall is one recorded call of a user hook.
type HookCall struct {
	Hook   string // "GenSchema", "CopyFrom", "CopyTo"
	Suffix string
	// GenSchema
	Attr tfsdk.Attribute
	// CopyFrom
	Value attr.Value
	Ptr   interface{} // pointer to the field
	// CopyTo
	Field    interface{}
	Type     attr.Type
	Current  attr.Value
	Returned attr.Value
	DiagsNil bool
}

// Log is the hook call log; the driver is single-threaded per call.
var Log []HookCall

var seq int

// CustomAttrType is the attribute type every recording GenSchema hook returns.
var CustomAttrType = types.StringType

// RecGenSchema is called by the generated GenSchema<S> shims.
func RecGenSchema(suffix string, a tfsdk.Attribute) tfsdk.Attribute {
	Log = append(Log, HookCall{Hook: "GenSchema", Suffix: suffix, Attr: a})
	out := a
	out.Type = CustomAttrType
	out.Attributes = nil
	out.MarkdownDescription = "hook:" + suffix
	return out
}

// RecCopyFrom is called by the generated CopyFrom<S> shims.
func RecCopyFrom(suffix string, diags diag.Diagnostics, v attr.Value, ptr interface{}) {
	Log = append(Log, HookCall{Hook: "CopyFrom", Suffix: suffix, Value: v, Ptr: ptr, DiagsNil: diags == nil})
}

// RecCopyTo is called by the generated CopyTo<S> shims.
func RecCopyTo(suffix string, diags diag.Diagnostics, field interface{}, t attr.Type, cur attr.Value) attr.Value {
	seq++
	// deterministic in the arguments, so that repeated conversions are comparable
	ret := types.String{Value: fmt.Sprintf("hook:%s:%v", suffix, deref(field))}
	Log = append(Log, HookCall{Hook: "CopyTo", Suffix: suffix, Field: field, Type: t, Current: cur, Returned: ret, DiagsNil: diags == nil})
	return ret
}

func deref(v interface{}) interface{} {
	rv := reflect.ValueOf(v)
	for rv.IsValid() && rv.Kind() == reflect.Ptr {
		if rv.IsNil() {
			return nil
		}
		rv = rv.Elem()
	}
	if !rv.IsValid() {
		return nil
	}
	return rv.Interface()
}

// Package tfx holds the harness-owned Terraform types the generated code is
// configured to use (time, duration), identifiable validators / plan modifiers,
// cast target types with an import path, and the recording custom-type hooks.
package tfx

import (
	"context"
	"fmt"
	"math/big"
	"reflect"
	"time"

	"github.com/hashicorp/terraform-plugin-framework/attr"
	"github.com/hashicorp/terraform-plugin-framework/diag"
	"github.com/hashicorp/terraform-plugin-framework/tfsdk"
	"github.com/hashicorp/terraform-plugin-framework/types"
	"github.com/hashicorp/terraform-plugin-go/tftypes"
)

// TimeType is the attr.Type for time.Time fields (stored as a string).
type TimeType struct {
	Format string
}

// TimeFormat is the lossless format used by the harness.
const TimeFormat = time.RFC3339Nano

// UseRFC3339Time is the configured type_constructor.
func UseRFC3339Time() TimeType { return TimeType{Format: TimeFormat} }

func (t TimeType) format() string {
	if t.Format == "" {
		return TimeFormat
	}
	return t.Format
}

func (t TimeType) ApplyTerraform5AttributePathStep(step tftypes.AttributePathStep) (interface{}, error) {
	return nil, fmt.Errorf("cannot apply AttributePathStep %T to %s", step, t.String())
}
func (t TimeType) String() string { return "tfx.TimeType(" + t.Format + ")" }
func (t TimeType) Equal(o attr.Type) bool {
	other, ok := o.(TimeType)
	return ok && t == other
}
func (t TimeType) TerraformType(context.Context) tftypes.Type { return tftypes.String }
func (t TimeType) ValueFromTerraform(_ context.Context, in tftypes.Value) (attr.Value, error) {
	if !in.IsKnown() {
		return TimeValue{Unknown: true, Format: t.Format}, nil
	}
	if in.IsNull() {
		return TimeValue{Null: true, Format: t.Format}, nil
	}
	var raw string
	if err := in.As(&raw); err != nil {
		return nil, err
	}
	v, err := time.Parse(t.format(), raw)
	if err != nil {
		return nil, err
	}
	return TimeValue{Value: v, Format: t.Format}, nil
}

// TimeValue is the attr.Value of TimeType.
type TimeValue struct {
	Unknown bool
	Null    bool
	Value   time.Time
	Format  string
}

func (t TimeValue) Type(context.Context) attr.Type { return TimeType{Format: t.Format} }
func (t TimeValue) ToTerraformValue(context.Context) (tftypes.Value, error) {
	if t.Null {
		return tftypes.NewValue(tftypes.String, nil), nil
	}
	if t.Unknown {
		return tftypes.NewValue(tftypes.String, tftypes.UnknownValue), nil
	}
	return tftypes.NewValue(tftypes.String, t.Value.Format(TimeType{Format: t.Format}.format())), nil
}
func (t TimeValue) Equal(other attr.Value) bool {
	o, ok := other.(TimeValue)
	if !ok || t.Unknown != o.Unknown || t.Null != o.Null {
		return false
	}
	return t.Value.Equal(o.Value)
}
func (t TimeValue) IsNull() bool    { return t.Null }
func (t TimeValue) IsUnknown() bool { return t.Unknown }
func (t TimeValue) String() string {
	if t.Unknown {
		return attr.UnknownValueString
	}
	if t.Null {
		return attr.NullValueString
	}
	return t.Value.String()
}

// DurationType is the attr.Type for duration fields (stored as a string).
type DurationType struct {
	Tag string
}

// UseDuration is the configured type_constructor for durations.
func UseDuration() DurationType { return DurationType{Tag: "ctor"} }

func (t DurationType) ApplyTerraform5AttributePathStep(step tftypes.AttributePathStep) (interface{}, error) {
	return nil, fmt.Errorf("cannot apply AttributePathStep %T to %s", step, t.String())
}
func (t DurationType) String() string { return "tfx.DurationType(" + t.Tag + ")" }
func (t DurationType) Equal(o attr.Type) bool {
	other, ok := o.(DurationType)
	return ok && t == other
}
func (t DurationType) TerraformType(context.Context) tftypes.Type { return tftypes.String }
func (t DurationType) ValueFromTerraform(_ context.Context, in tftypes.Value) (attr.Value, error) {
	if !in.IsKnown() {
		return DurationValue{Unknown: true, Tag: t.Tag}, nil
	}
	if in.IsNull() {
		return DurationValue{Null: true, Tag: t.Tag}, nil
	}
	var raw string
	if err := in.As(&raw); err != nil {
		return nil, err
	}
	v, err := time.ParseDuration(raw)
	if err != nil {
		return nil, err
	}
	return DurationValue{Value: v, Tag: t.Tag}, nil
}

// DurationValue is the attr.Value of DurationType.
type DurationValue struct {
	Unknown bool
	Null    bool
	Value   time.Duration
	Tag     string
}

func (t DurationValue) Type(context.Context) attr.Type { return DurationType{Tag: t.Tag} }
func (t DurationValue) ToTerraformValue(context.Context) (tftypes.Value, error) {
	if t.Null {
		return tftypes.NewValue(tftypes.String, nil), nil
	}
	if t.Unknown {
		return tftypes.NewValue(tftypes.String, tftypes.UnknownValue), nil
	}
	return tftypes.NewValue(tftypes.String, t.Value.String()), nil
}
func (t DurationValue) Equal(other attr.Value) bool {
	o, ok := other.(DurationValue)
	if !ok || t.Unknown != o.Unknown || t.Null != o.Null {
		return false
	}
	return t.Value == o.Value
}
func (t DurationValue) IsNull() bool    { return t.Null }
func (t DurationValue) IsUnknown() bool { return t.Unknown }
func (t DurationValue) String() string {
	if t.Unknown {
		return attr.UnknownValueString
	}
	if t.Null {
		return attr.NullValueString
	}
	return t.Value.String()
}

// Validator is an identifiable attribute validator.
type Validator struct{ ID string }

// V returns the validator with the given id.
func V(id string) tfsdk.AttributeValidator { return Validator{ID: id} }

func (v Validator) Description(context.Context) string         { return "validator " + v.ID }
func (v Validator) MarkdownDescription(context.Context) string { return "validator " + v.ID }
func (v Validator) Validate(context.Context, tfsdk.ValidateAttributeRequest, *tfsdk.ValidateAttributeResponse) {
}

// PlanMod is an identifiable plan modifier.
type PlanMod struct{ ID string }

// PM returns the plan modifier with the given id.
func PM(id string) tfsdk.AttributePlanModifier { return PlanMod{ID: id} }

func (p PlanMod) Description(context.Context) string         { return "planmod " + p.ID }
func (p PlanMod) MarkdownDescription(context.Context) string { return "planmod " + p.ID }
func (p PlanMod) Modify(context.Context, tfsdk.ModifyAttributePlanRequest, *tfsdk.ModifyAttributePlanResponse) {
}

// Cast target types reachable through an import path (casttype "verif/rt/tfx.XString").
type (
	XString string
	XBytes  []byte
	XBool   bool
	XInt32  int32
	XInt64  int64
	XFloat  float32
)

// Custom types for gogoproto.customtype fields (import-path form).
type (
	XCustom  struct{ V string }
	XCustomB bool
)

// HookCall is one recorded call of a user hook.
type HookCall struct {
	Hook   string // "GenSchema", "CopyFrom", "CopyTo"
	Suffix string
	// GenSchema
	Attr tfsdk.Attribute
	// CopyFrom
	Value attr.Value
	Ptr   interface{} // pointer to the field
	// CopyTo
	Field    interface{}
	Type     attr.Type
	Current  attr.Value
	Returned attr.Value
	DiagsNil bool
}

// Log is the hook call log; the driver is single-threaded per call.
var Log []HookCall

var seq int

// CustomAttrType is the attribute type every recording GenSchema hook returns.
var CustomAttrType = types.StringType

// RecGenSchema is called by the generated GenSchema<S> shims.
func RecGenSchema(suffix string, a tfsdk.Attribute) tfsdk.Attribute {
	Log = append(Log, HookCall{Hook: "GenSchema", Suffix: suffix, Attr: a})
	out := a
	out.Type = CustomAttrType
	out.Attributes = nil
	out.MarkdownDescription = "hook:" + suffix
	return out
}

// RecCopyFrom is called by the generated CopyFrom<S> shims.
func RecCopyFrom(suffix string, diags diag.Diagnostics, v attr.Value, ptr interface{}) {
	Log = append(Log, HookCall{Hook: "CopyFrom", Suffix: suffix, Value: v, Ptr: ptr, DiagsNil: diags == nil})
}

// NilResults makes the CopyTo hooks return a nil attr.Value (set by the C17 monitor for single calls).
var NilResults bool

// RecCopyTo is called by the generated CopyTo<S> shims.
func RecCopyTo(suffix string, diags diag.Diagnostics, field interface{}, t attr.Type, cur attr.Value) attr.Value {
	seq++
	// deterministic in the arguments, so that repeated conversions are comparable
	var ret attr.Value = types.String{Value: fmt.Sprintf("hook:%s:%v", suffix, deref(field))}
	if NilResults {
		ret = nil // a hook may return nil; what it returns is what gets stored
	}
	Log = append(Log, HookCall{Hook: "CopyTo", Suffix: suffix, Field: field, Type: t, Current: cur, Returned: ret, DiagsNil: diags == nil})
	return ret
}

func deref(v interface{}) interface{} {
	rv := reflect.ValueOf(v)
	for rv.IsValid() && rv.Kind() == reflect.Ptr {
		if rv.IsNil() {
			return nil
		}
		rv = rv.Elem()
	}
	if !rv.IsValid() {
		return nil
	}
	return rv.Interface()
}

// ---------------------------------------------------------------------------
// Alternative scalar types for the `schema_types` option: the type is named by a
// package-level variable (the generator emits the name as an expression), the
// value is a struct with Null / Unknown / Value.

// The type carries a parameter (unit) which its values inherit, like TimeType.Format: a value that was not
// derived from the schema's type instance reports another type.
type altType struct {
	kind string
	unit string
}

// AltStringType, AltInt64Type and AltBoolType are the attr.Type values a
// configuration can name in schema_types.
var (
	AltStringType attr.Type = altType{"string", "unit:text"}
	AltInt64Type  attr.Type = altType{"int64", "unit:MiB"}
	AltBoolType   attr.Type = altType{"bool", "unit:flag"}
)

func (t altType) tf() tftypes.Type {
	switch t.kind {
	case "int64":
		return tftypes.Number
	case "bool":
		return tftypes.Bool
	}
	return tftypes.String
}
func (t altType) TerraformType(context.Context) tftypes.Type { return t.tf() }
func (t altType) String() string {
	if t.unit == "" {
		return "tfx.Alt(" + t.kind + ", no unit: the value does not stem from the schema's type)"
	}
	return "tfx.Alt(" + t.kind + ")"
}
func (t altType) Equal(o attr.Type) bool {
	other, ok := o.(altType)
	return ok && other == t
}
func (t altType) ApplyTerraform5AttributePathStep(step tftypes.AttributePathStep) (interface{}, error) {
	return nil, fmt.Errorf("cannot apply AttributePathStep %T to %s", step, t.String())
}
func (t altType) ValueFromTerraform(_ context.Context, in tftypes.Value) (attr.Value, error) {
	unknown, null := !in.IsKnown(), in.IsKnown() && in.IsNull()
	switch t.kind {
	case "int64":
		v := AltInt64{Unknown: unknown, Null: null, Unit: t.unit}
		if !unknown && !null {
			var f big.Float
			if err := in.As(&f); err != nil {
				return nil, err
			}
			i, acc := f.Int64()
			if acc != big.Exact {
				return nil, fmt.Errorf("%s is not an int64", f.String())
			}
			v.Value = i
		}
		return v, nil
	case "bool":
		v := AltBool{Unknown: unknown, Null: null, Unit: t.unit}
		if !unknown && !null {
			if err := in.As(&v.Value); err != nil {
				return nil, err
			}
		}
		return v, nil
	}
	v := AltString{Unknown: unknown, Null: null, Unit: t.unit}
	if !unknown && !null {
		if err := in.As(&v.Value); err != nil {
			return nil, err
		}
	}
	return v, nil
}

func altTF(t tftypes.Type, null, unknown bool, val interface{}) (tftypes.Value, error) {
	if null {
		return tftypes.NewValue(t, nil), nil
	}
	if unknown {
		return tftypes.NewValue(t, tftypes.UnknownValue), nil
	}
	return tftypes.NewValue(t, val), nil
}

// AltString is the value of AltStringType.
type AltString struct {
	Unknown bool
	Null    bool
	Value   string
	// Unit is inherited from the type the value was made by.
	Unit string
}

func (v AltString) Type(context.Context) attr.Type { return altType{"string", v.Unit} }
func (v AltString) ToTerraformValue(context.Context) (tftypes.Value, error) {
	return altTF(tftypes.String, v.Null, v.Unknown, v.Value)
}
func (v AltString) Equal(o attr.Value) bool { x, ok := o.(AltString); return ok && x == v }
func (v AltString) IsNull() bool            { return v.Null }
func (v AltString) IsUnknown() bool         { return v.Unknown }
func (v AltString) String() string {
	return fmt.Sprintf("AltString(%q,null=%v,unknown=%v)", v.Value, v.Null, v.Unknown)
}

// AltInt64 is the value of AltInt64Type.
type AltInt64 struct {
	Unknown bool
	Null    bool
	Value   int64
	// Unit is inherited from the type the value was made by.
	Unit string
}

func (v AltInt64) Type(context.Context) attr.Type { return altType{"int64", v.Unit} }
func (v AltInt64) ToTerraformValue(context.Context) (tftypes.Value, error) {
	return altTF(tftypes.Number, v.Null, v.Unknown, new(big.Float).SetPrec(64).SetInt64(v.Value))
}
func (v AltInt64) Equal(o attr.Value) bool { x, ok := o.(AltInt64); return ok && x == v }
func (v AltInt64) IsNull() bool            { return v.Null }
func (v AltInt64) IsUnknown() bool         { return v.Unknown }
func (v AltInt64) String() string {
	return fmt.Sprintf("AltInt64(%d,null=%v,unknown=%v)", v.Value, v.Null, v.Unknown)
}

// AltBool is the value of AltBoolType.
type AltBool struct {
	Unknown bool
	Null    bool
	Value   bool
	// Unit is inherited from the type the value was made by.
	Unit string
}

func (v AltBool) Type(context.Context) attr.Type { return altType{"bool", v.Unit} }
func (v AltBool) ToTerraformValue(context.Context) (tftypes.Value, error) {
	return altTF(tftypes.Bool, v.Null, v.Unknown, v.Value)
}
func (v AltBool) Equal(o attr.Value) bool { x, ok := o.(AltBool); return ok && x == v }
func (v AltBool) IsNull() bool            { return v.Null }
func (v AltBool) IsUnknown() bool         { return v.Unknown }
func (v AltBool) String() string {
	return fmt.Sprintf("AltBool(%v,null=%v,unknown=%v)", v.Value, v.Null, v.Unknown)
}

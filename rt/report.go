package rt

import (
	"fmt"
	"runtime/debug"
	"strings"

	"verif/rt/spec"
)

// Violation is one refuting observation.
type Violation struct {
	Prop        string      `json:"prop"`
	Fingerprint string      `json:"fingerprint"`
	Case        string      `json:"case"`
	Type        string      `json:"type"`
	Input       string      `json:"input"` // logical input id (seed/case/input)
	Message     string      `json:"message"`
	Detail      interface{} `json:"detail,omitempty"`
}

// Result is what one driver process reports.
type Result struct {
	Prop        string         `json:"prop"`
	Evaluations int            `json:"evaluations"`
	Distinct    int            `json:"distinct"`
	Violations  []Violation    `json:"violations,omitempty"`
	ViolCount   map[string]int `json:"viol_count,omitempty"` // per fingerprint, all occurrences
	Samples     []interface{}  `json:"samples,omitempty"`
	Counters    map[string]int `json:"counters"`
	Harness     []string       `json:"harness,omitempty"` // harness errors => inconclusive
	DistinctSet []string       `json:"distinct_set,omitempty"`
	distinct    map[string]bool
}

// Ctx is the context of one monitor run on one root type.
type Ctx struct {
	Opt  Options
	Case *spec.Case
	Reg  *CaseReg
	Root *spec.Msg
	T    *TypeReg
	Res  *Result
	prf  PRF
	// quiet suppresses distinct / counter bookkeeping (model checks run inside another monitor)
	quiet bool
}

// Eval counts one monitored execution.
func (x *Ctx) Eval(n int) { x.Res.Evaluations += n }

// Count bumps a named counter.
func (x *Ctx) Count(name string, n int) { x.Res.Counters[name] += n }

// Distinct records a distinct non-trivial case signature.
func (x *Ctx) Distinct(sig string) {
	if x.quiet {
		return
	}
	x.Res.distinct[x.Case.Name+"/"+x.Root.Name+"/"+sig] = true
}

// Sample keeps up to a few real inputs for the evidence file.
func (x *Ctx) Sample(s interface{}) {
	if len(x.Res.Samples) < 3 {
		x.Res.Samples = append(x.Res.Samples, s)
	}
}

const maxViolPerFingerprint = 2

// Violate records a violation. fp must classify the failure (oracle + field
// class + input class + direction), never the concrete value.
func (x *Ctx) Violate(fp, input, msg string, detail interface{}) {
	if x.Res.ViolCount == nil {
		x.Res.ViolCount = map[string]int{}
	}
	x.Res.ViolCount[fp]++
	if x.Res.ViolCount[fp] > maxViolPerFingerprint {
		return
	}
	x.Res.Violations = append(x.Res.Violations, Violation{Prop: x.Opt.Prop, Fingerprint: fp, Case: x.Case.Name, Type: x.Root.Name,
		Input: input, Message: msg, Detail: detail})
}

// Budget returns the per-type input count for the tier.
func (x *Ctx) Budget(quick, thorough int) int {
	if x.Opt.N > 0 {
		return x.Opt.N
	}
	if x.Opt.Tier == "thorough" {
		return thorough
	}
	return quick
}

func stack() string {
	s := string(debug.Stack())
	l := strings.Split(s, "\n")
	if len(l) > 40 {
		l = l[:40]
	}
	return strings.Join(l, "\n")
}

// panicClass reduces a recovered panic value to a stable class.
func panicClass(r interface{}) string {
	s := fmt.Sprint(r)
	switch {
	case strings.Contains(s, "nil pointer dereference"):
		return "nil-deref"
	case strings.Contains(s, "index out of range"):
		return "index-out-of-range"
	case strings.Contains(s, "nil map"):
		return "nil-map-write"
	case strings.Contains(s, "interface conversion"):
		return "interface-conversion"
	}
	if len(s) > 40 {
		s = s[:40]
	}
	return s
}

// panicSite extracts the first frame inside generated code from a stack trace.
func panicSite(st string) string {
	for _, l := range strings.Split(st, "\n") {
		if strings.Contains(l, "gen_terraform.go:") {
			return strings.TrimSpace(l)
		}
	}
	return ""
}

package rt

import (
	"context"
	"fmt"
	"strings"

	"github.com/hashicorp/terraform-plugin-framework/attr"
	"github.com/hashicorp/terraform-plugin-framework/diag"
	"github.com/hashicorp/terraform-plugin-framework/tfsdk"
	"github.com/hashicorp/terraform-plugin-framework/types"

	"verif/rt/tfx"
)

// callOut is what a monitored call produced.
type callOut struct {
	Diags    diag.Diagnostics
	Panic    interface{}
	Stack    string
	Hooks    []tfx.HookCall
	ErrCount int
}

func (c *callOut) errs() []string {
	var r []string
	for _, d := range c.Diags {
		if d.Severity() == diag.SeverityError {
			r = append(r, d.Summary()+": "+d.Detail())
		}
	}
	return r
}

// Schema calls GenSchemaT under recover.
func (x *Ctx) Schema() (s tfsdk.Schema, out callOut) {
	tfx.Log = nil
	defer func() {
		if r := recover(); r != nil {
			out.Panic = r
			out.Stack = stack()
		}
		out.Hooks = tfx.Log
		tfx.Log = nil
	}()
	s, out.Diags = x.T.GenSchema(context.Background())
	return
}

// CopyTo calls CopyTToTerraform under recover.
func (x *Ctx) CopyTo(p interface{}, obj *types.Object) (out callOut) {
	tfx.Log = nil
	defer func() {
		if r := recover(); r != nil {
			out.Panic = r
			out.Stack = stack()
		}
		out.Hooks = tfx.Log
		tfx.Log = nil
	}()
	out.Diags = x.T.CopyTo(context.Background(), p, obj)
	return
}

// CopyFrom calls CopyTFromTerraform under recover.
func (x *Ctx) CopyFrom(obj types.Object, p interface{}) (out callOut) {
	tfx.Log = nil
	defer func() {
		if r := recover(); r != nil {
			out.Panic = r
			out.Stack = stack()
		}
		out.Hooks = tfx.Log
		tfx.Log = nil
	}()
	out.Diags = x.T.CopyFrom(context.Background(), obj, p)
	return
}

// emptyObject returns an object that carries the schema's attribute types and no values.
func emptyObject(s tfsdk.Schema) (types.Object, error) {
	ot, ok := s.AttributeType().(types.ObjectType)
	if !ok {
		return types.Object{}, fmt.Errorf("schema type is %T", s.AttributeType())
	}
	return types.Object{AttrTypes: ot.AttrTypes}, nil
}

// panicFP builds the fingerprint of a panic inside generated code.
func panicFP(op string, out callOut) string {
	return fmt.Sprintf("panic/%s/%s", op, panicClass(out.Panic))
}

func panicDetail(out callOut) map[string]interface{} {
	return map[string]interface{}{"panic": fmt.Sprint(out.Panic), "site": panicSite(out.Stack), "stack": firstLines(out.Stack, 24)}
}

func firstLines(s string, n int) string {
	l := strings.Split(s, "\n")
	if len(l) > n {
		l = l[:n]
	}
	return strings.Join(l, "\n")
}

// deepCopyTF clones an attr.Value tree (containers are re-allocated).
func deepCopyTF(v attr.Value) attr.Value {
	switch t := v.(type) {
	case types.Object:
		if t.Attrs != nil {
			m := make(map[string]attr.Value, len(t.Attrs))
			for k, e := range t.Attrs {
				m[k] = deepCopyTF(e)
			}
			t.Attrs = m
		}
		return t
	case types.List:
		if t.Elems != nil {
			s := make([]attr.Value, len(t.Elems))
			for i, e := range t.Elems {
				s[i] = deepCopyTF(e)
			}
			t.Elems = s
		}
		return t
	case types.Map:
		if t.Elems != nil {
			m := make(map[string]attr.Value, len(t.Elems))
			for k, e := range t.Elems {
				m[k] = deepCopyTF(e)
			}
			t.Elems = m
		}
		return t
	}
	return v
}

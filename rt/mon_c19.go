package rt

import (
	"fmt"
	"math"
	"reflect"
	"strings"
	"time"

	"github.com/hashicorp/terraform-plugin-framework/types"

	"verif/rt/spec"
)

func init() { monitors["C19"] = monC19 }

// boundaryValues returns the full boundary set of a leaf Go type.
func boundaryValues(t reflect.Type, a *spec.Attr) []reflect.Value {
	var out []reflect.Value
	add := func(v interface{}) { out = append(out, reflect.ValueOf(v).Convert(t)) }
	if t == timeType {
		locs := []*time.Location{time.UTC, time.FixedZone("", 14*3600), time.FixedZone("", -14*3600), time.FixedZone("", 5*3600+1800), time.FixedZone("", -1)}
		for _, l := range locs {
			for _, tm := range []time.Time{
				time.Unix(0, 0), time.Unix(0, 1), time.Unix(-1, 999999999), time.Unix(1<<31, 123456789), time.Unix(-1<<31-1, 5),
				time.Date(9999, 12, 31, 23, 59, 59, 999999999, time.UTC), time.Date(1, 1, 1, 0, 0, 0, 1, time.UTC), time.Date(1677, 9, 21, 0, 12, 43, 145224192, time.UTC),
				time.Date(2262, 4, 11, 23, 47, 16, 854775807, time.UTC),
			} {
				out = append(out, reflect.ValueOf(tm.In(l)))
			}
		}
		out = append(out, reflect.ValueOf(time.Time{}))
		return out
	}
	switch t.Kind() {
	case reflect.Bool:
		add(false)
		add(true)
	case reflect.Int32:
		for _, n := range []int32{0, 1, -1, 2, math.MaxInt32, math.MaxInt32 - 1, math.MinInt32, math.MinInt32 + 1, 1 << 24, 1<<24 + 1, -(1<<24 + 1), 32767, -32768, 65535, 65536} {
			add(n)
		}
		for _, n := range a.EnumNumbers {
			add(n)
		}
	case reflect.Int64, reflect.Int:
		for _, n := range []int64{0, 1, -1, math.MaxInt64, math.MaxInt64 - 1, math.MinInt64, math.MinInt64 + 1, math.MaxInt32, math.MaxInt32 + 1, math.MinInt32, math.MinInt32 - 1,
			math.MaxUint32, math.MaxUint32 + 1, 1 << 53, 1<<53 + 1, -(1 << 53), -(1<<53 + 1), 1 << 62, -(1 << 62)} {
			add(n)
		}
	case reflect.Uint32:
		for _, n := range []uint32{0, 1, 2, math.MaxInt32, math.MaxInt32 + 1, math.MaxUint32, math.MaxUint32 - 1, 1<<24 + 1, 65535, 65536} {
			add(n)
		}
	case reflect.Uint64, reflect.Uint:
		for _, n := range []uint64{0, 1, math.MaxInt64, math.MaxInt64 + 1, math.MaxInt64 + 2, math.MaxUint64, math.MaxUint64 - 1, math.MaxUint32, math.MaxUint32 + 1, 1<<53 + 1, 1 << 63, 1<<63 + 1<<62} {
			add(n)
		}
	case reflect.Float32:
		for _, f := range []float32{0, float32(math.Copysign(0, -1)), 1, -1, 1.5, 0.1, 1.0 / 3.0, math.MaxFloat32, -math.MaxFloat32, math.SmallestNonzeroFloat32, -math.SmallestNonzeroFloat32,
			math.Float32frombits(0x007fffff), math.Float32frombits(0x00800000), math.Float32frombits(0x7f7ffffe), 16777216, 16777217, 1e-45, 3.4e38, 1e38} {
			add(f)
		}
	case reflect.Float64:
		for _, f := range []float64{0, math.Copysign(0, -1), 1, -1, 1.5, 0.1, 1.0 / 3.0, math.MaxFloat64, -math.MaxFloat64, math.SmallestNonzeroFloat64, -math.SmallestNonzeroFloat64,
			math.Float64frombits(0x000fffffffffffff), math.Float64frombits(0x0010000000000000), 9007199254740992, 9007199254740993, math.MaxFloat32, math.MaxFloat32 * 2,
			math.SmallestNonzeroFloat32 / 2, math.Inf(1), math.Inf(-1), 1e308, 1e-308} {
			add(f)
		}
	case reflect.String:
		for _, s := range []string{"", "a", " ", "\x00", "a\x00b", "\xff\xfe", "ünï©ode ✓ 日本語", strings.Repeat("x", 10000), "line\nbreak\r\n", "\"q\"", "null", "0",
			"base64:QUJD", "base64:", "hex:00ff", "0x1f", "b64:AAAA", "data:text/plain;base64,QQ==", "${var.x}", "%!s(MISSING)", "\\x00", "[]", "{}", "true", "QUJD", "AAAA"} {
			add(s)
		}
	case reflect.Slice:
		all := make([]byte, 256)
		for i := range all {
			all[i] = byte(i)
		}
		for _, b := range [][]byte{nil, {}, {0}, {0xff}, all, []byte("text"), make([]byte, 4096),
			[]byte("base64:QUJD"), []byte("base64:"), []byte("hex:00ff"), []byte("b64:AAAA"), []byte("QUJD"), []byte("AAAA"), []byte("0x1f"), []byte("data:;base64,QQ==")} {
			out = append(out, reflect.ValueOf(b).Convert(t))
		}
	}
	return out
}

// randomLeaf draws a random value of a leaf type (full range).
func randomLeaf(t reflect.Type, r *rng) reflect.Value {
	v := reflect.New(t).Elem()
	if t == timeType {
		v.Set(reflect.ValueOf(genTime(r, false)))
		return v
	}
	switch t.Kind() {
	case reflect.Bool:
		v.SetBool(r.intn(2) == 0)
	case reflect.Int32:
		v.SetInt(int64(int32(r.next())))
	case reflect.Int64, reflect.Int:
		v.SetInt(int64(r.next()))
	case reflect.Uint32:
		v.SetUint(uint64(uint32(r.next())))
	case reflect.Uint64, reflect.Uint:
		v.SetUint(r.next())
	case reflect.Float32:
		for {
			f := math.Float32frombits(uint32(r.next()))
			if !math.IsNaN(float64(f)) && !math.IsInf(float64(f), 0) {
				v.SetFloat(float64(f))
				break
			}
		}
	case reflect.Float64:
		for {
			f := math.Float64frombits(r.next())
			if !math.IsNaN(f) {
				v.SetFloat(f)
				break
			}
		}
	case reflect.String:
		n := r.intn(24)
		b := make([]byte, n)
		for i := range b {
			b[i] = byte(r.next())
		}
		v.SetString(string(b))
	case reflect.Slice:
		n := r.intn(24)
		b := make([]byte, n)
		for i := range b {
			b[i] = byte(r.next())
		}
		v.Set(reflect.ValueOf(b).Convert(t))
	}
	return v
}

// leafGoType returns the Go type of the scalar leaf of a (element type of lists / maps, pointee of pointers).
func leafGoType(ft reflect.Type, a *spec.Attr) reflect.Type {
	switch a.Kind {
	case spec.KList, spec.KMap:
		ft = ft.Elem()
	}
	if ft.Kind() == reflect.Ptr {
		ft = ft.Elem()
	}
	return ft
}

// place stores v (and w as a second element / value) into the field of a in a fresh root struct.
func (x *Ctx) place(a *spec.Attr, ft reflect.Type, v, w reflect.Value) interface{} {
	p := x.T.New()
	mv := reflect.ValueOf(p).Elem()
	wrap := func(et reflect.Type, val reflect.Value) reflect.Value {
		if et.Kind() == reflect.Ptr {
			pv := reflect.New(et.Elem())
			pv.Elem().Set(val)
			return pv
		}
		return val
	}
	var fv reflect.Value
	switch a.Kind {
	case spec.KScalar:
		fv = wrap(ft, v)
	case spec.KList:
		fv = reflect.MakeSlice(ft, 2, 2)
		fv.Index(0).Set(wrap(ft.Elem(), v))
		fv.Index(1).Set(wrap(ft.Elem(), w))
	case spec.KMap:
		fv = reflect.MakeMap(ft)
		fv.SetMapIndex(reflect.ValueOf("k").Convert(ft.Key()), wrap(ft.Elem(), v))
		fv.SetMapIndex(reflect.ValueOf("").Convert(ft.Key()), wrap(ft.Elem(), w))
	}
	if a.Oneof != nil {
		x.setOneof(mv, a, fv)
	} else {
		cont, _ := container(mv, a, true)
		cont.FieldByName(a.GoName).Set(fv)
	}
	return p
}

func monC19(x *Ctx) {
	s, ok := x.schemaOrViolate()
	if !ok {
		return
	}
	empty, _ := emptyObject(s)
	mt := rootStructType(x)
	nRand := x.Budget(150, 10000)
	sampled := false
	for _, a := range x.Root.Live() {
		if a.Leaf == "" || a.Kind == spec.KCustom {
			continue
		}
		ft := x.fieldType(mt, a)
		lt := leafGoType(ft, a)
		vals := boundaryValues(lt, a)
		nb := len(vals)
		r := rng{s: x.prf.U64("c19", a.Path)}
		for i := 0; i < nRand; i++ {
			vals = append(vals, randomLeaf(lt, &r))
		}
		x.Count("shapes", 1)
		x.Count("boundary-values", nb)
		for i, v := range vals {
			w := vals[(i+1)%len(vals)]
			in := fmt.Sprintf("%s/%d", a.Path, i)
			p := x.place(a, ft, v, w)
			x.Eval(1)
			x.Distinct(fmt.Sprintf("%s/%v", a.Path, canonLeaf(v)))
			before := x.DumpStruct(p, dumpOpt{NF: a.Oneof != nil})
			_, q, ok := x.roundTrip(in, p, empty)
			if !ok {
				continue
			}
			after := x.DumpStruct(q, dumpOpt{NF: a.Oneof != nil})
			if !sampled && i == 3 {
				sampled = true
				x.Sample(map[string]interface{}{"case": x.Case.Name, "type": x.Root.Name, "field": a.Path, "class": a.Class, "value": canonLeaf(v), "boundary_values_of_shape": nb})
			}
			// only the probed field is judged (the rest of the struct is zero; a nullable embed
			// whose fields are all zero legitimately reads back as nil)
			if !reflect.DeepEqual(before[dumpKey(a)], after[dumpKey(a)]) {
				kind := "boundary"
				if i >= nb {
					kind = "random"
				}
				x.Violate(fmt.Sprintf("inexact/%s/%s", a.Class, kind), in, fmt.Sprintf("%s: value %v (and %v) did not survive CopyTo;CopyFrom: %v", a.Path, canonLeaf(v), canonLeaf(w), DiffPaths(before, after)),
					map[string]interface{}{"before": before[dumpKey(a)], "after": after[dumpKey(a)]})
			}
		}
	}
}

var _ = types.Object{}

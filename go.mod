module verif

go 1.18

require (
	github.com/gogo/protobuf v1.3.2
	github.com/hashicorp/terraform-plugin-framework v0.10.0
	github.com/hashicorp/terraform-plugin-go v0.12.0
	google.golang.org/protobuf v1.28.0
	gopkg.in/yaml.v3 v3.0.1
)

require (
	github.com/davecgh/go-spew v1.1.1 // indirect
	github.com/fatih/color v1.13.0 // indirect
	github.com/golang/protobuf v1.5.2 // indirect
	github.com/google/go-cmp v0.5.8 // indirect
	github.com/hashicorp/go-hclog v1.2.1 // indirect
	github.com/hashicorp/terraform-plugin-log v0.6.0 // indirect
	github.com/kr/text v0.2.0 // indirect
	github.com/mattn/go-colorable v0.1.12 // indirect
	github.com/mattn/go-isatty v0.0.14 // indirect
	github.com/mitchellh/go-testing-interface v1.14.1 // indirect
	github.com/vmihailenco/msgpack/v4 v4.3.12 // indirect
	github.com/vmihailenco/tagparser v0.1.1 // indirect
	golang.org/x/net v0.17.0 // indirect
	golang.org/x/sys v0.15.0 // indirect
	google.golang.org/appengine v1.6.7 // indirect
	gopkg.in/check.v1 v1.0.0-20201130134442-10cb98267c6c // indirect
)

#!/usr/bin/env python3
"""regress.py [-j N] [name-prefix...]
Re-runs, for every seeded change under seeded/, the quick checks that are recorded as catching it
(meta.json: evaluation.caught_by), each against a scratch copy of /repo with the change applied
(VERIF_REPO points the harness at the copy; /repo itself is never touched). Prints one line per
change and a summary of those that are no longer caught. Meant to be started through
`vp run -- python3 tools/regress.py` so that it works on a snapshot of /verif."""
import json, os, shutil, subprocess, sys, tempfile, glob
from concurrent.futures import ThreadPoolExecutor

ROOT = os.path.dirname(os.path.dirname(os.path.abspath(__file__)))
ENV = dict(os.environ, GOFLAGS="-mod=mod", GOPROXY="off", GOSUMDB="off", GOTOOLCHAIN="local")
REPO = os.environ.get("VP_RUN_REPO") or "/repo"


def one(args):
    name, props, scratch = args
    d = os.path.join(ROOT, "seeded", name)
    copy = tempfile.mkdtemp(prefix="repo-", dir=scratch)
    try:
        subprocess.run(["rsync", "-a", "--exclude", ".git", REPO + "/", copy + "/"], check=True)
        p = subprocess.run(["git", "apply", os.path.join(d, "patch.diff")], cwd=copy, stdout=subprocess.PIPE, stderr=subprocess.STDOUT)
        if p.returncode != 0:
            return name, "PATCH-DOES-NOT-APPLY", p.stdout.decode()[-300:]
        caught = []
        for prop in props:
            env = dict(ENV, VERIF_REPO=copy)
            q = subprocess.run(["./run.sh", prop, "quick"], cwd=ROOT, env=env, stdout=subprocess.PIPE, stderr=subprocess.STDOUT)
            if q.returncode == 1:
                caught.append(prop)
                break
        return name, ("caught:" + ",".join(caught)) if caught else "NOT-CAUGHT", ""
    finally:
        shutil.rmtree(copy, ignore_errors=True)


def main():
    args = sys.argv[1:]
    j = 3
    if args[:1] == ["-j"]:
        j = int(args[1])
        args = args[2:]
    scratch = tempfile.mkdtemp(prefix="verif-regress-")
    jobs = []
    for mp in sorted(glob.glob(os.path.join(ROOT, "seeded", "*", "meta.json"))):
        name = os.path.basename(os.path.dirname(mp))
        if args and not any(name.startswith(a) for a in args):
            continue
        ev = json.load(open(mp)).get("evaluation", {})
        props = ev.get("caught_by") or []
        if not props:
            print(name, "skipped (recorded as not caught)")
            continue
        jobs.append((name, props, scratch))
    bad = []
    try:
        with ThreadPoolExecutor(max_workers=j) as ex:
            for name, verdict, detail in ex.map(one, jobs):
                print(name, verdict, detail, flush=True)
                if not verdict.startswith("caught"):
                    bad.append(name)
    finally:
        shutil.rmtree(scratch, ignore_errors=True)
    print("REGRESSION SUMMARY: %d changes, %d no longer caught: %s" % (len(jobs), len(bad), bad))
    sys.exit(1 if bad else 0)


if __name__ == "__main__":
    main()

#!/usr/bin/env python3
"""Regenerates the table of DESIGN.md §10 from seeded/*/meta.json and seeded/NOTES.json
(notes: what had to be extended for a change that was missed at first)."""
import json, os
root = os.path.join(os.path.dirname(os.path.abspath(__file__)), '..')
N = json.load(open(os.path.join(root, 'seeded', 'NOTES.json')))
rows = []
for d in sorted(os.listdir(os.path.join(root, 'seeded'))):
    p = os.path.join(root, 'seeded', d, 'meta.json')
    if not os.path.exists(p):
        continue
    m = json.load(open(p))
    ev = m.get('evaluation', {})
    needs = m.get('needs', '')
    if not isinstance(needs, str):
        needs = json.dumps(needs)
    summ = m.get('summary', '')
    if not isinstance(summ, str):
        summ = json.dumps(summ)
    cell = (needs or summ)[:170].replace('\n', ' ').replace('|', '/')
    caught = N['caught_override'].get(d) or ','.join(ev.get('caught_by', [])) or '—'
    rows.append('| `%s` | %s | %s | %s |' % (d, cell, caught, N['notes'].get(d, '')))
design = os.path.join(root, 'DESIGN.md')
s = open(design).read()
i = s.index('| seeded change | needs |')
j = s.index('\n\n', i)
s = s[:i] + '| seeded change | needs | caught by (quick tier) | note |\n|---|---|---|---|\n' + '\n'.join(rows) + s[j:]
open(design, 'w').write(s)
print(len(rows), 'rows')

#!/usr/bin/env python3
"""mk_round.py <scratch-dir> [props...]
Prepares one round of seeded changes: per property a scratch git worktree of /repo under
<scratch-dir>/<Cxx> and a self-contained prompt <scratch-dir>/<Cxx>.prompt.txt made from
tools/mutant_prompt.tmpl, the text of the property, and the list of ideas earlier rounds already
used for that property (one line each, from seeded/<Cxx>-*/meta.json) so that the new changes are
different. The sub-agent gets nothing else (nothing from /verif)."""
import json, os, subprocess, sys, glob

ROOT = os.path.dirname(os.path.dirname(os.path.abspath(__file__)))


def main():
    scratch = sys.argv[1]
    want = sys.argv[2:]
    os.makedirs(scratch, exist_ok=True)
    tmpl = open(os.path.join(ROOT, "tools", "mutant_prompt.tmpl")).read().replace("/tmp/mut/", scratch.rstrip("/") + "/")
    for line in open(os.path.join(ROOT, "properties.jsonl")):
        p = json.loads(line)
        pid = p["id"]
        if want and pid not in want:
            continue
        text = "%s — %s\n%s\nQuantifier: %s" % (pid, p["title"], p["statement"], p["quantifier"]["text"])
        used = []
        for mp in sorted(glob.glob(os.path.join(ROOT, "seeded", pid + "-*", "meta.json"))):
            m = json.load(open(mp))
            s = m.get("summary", "")
            if not isinstance(s, str):
                s = json.dumps(s)
            used.append("- " + s.replace("\n", " ")[:260])
        extra = """

ALREADY USED IDEAS for this property (earlier rounds; do NOT repeat these or close variants of them):
%s

Look for something from a DIFFERENT direction, for example: a value class (a particular number, string, instant, length, key) rather than a shape; a history (several calls on the same target / object); the interplay of three features; rarely used configuration forms (YAML syntax variants, option combinations, keys addressing the same field twice); state that leaks from one selected type, field or file to the next inside one generator run; behaviour that depends on declaration or map iteration order; the boundary between the generated file and the user's packages (imports, qualifiers, name clashes); error paths. The change should look like an honest refactoring, clean-up, optimisation or small feature. It must keep `go test -vet=off -count=1 ./...` green EVERY time it is run (no flaky failures)."""
        open(os.path.join(scratch, pid + ".property.txt"), "w").write(text + "\n")
        prompt = tmpl.replace("@ID@", pid).replace("@PROP@", text) + extra % "\n".join(used)
        open(os.path.join(scratch, pid + ".prompt.txt"), "w").write(prompt)
        wt = os.path.join(scratch, pid)
        if not os.path.isdir(wt):
            subprocess.run(["git", "-C", "/repo", "worktree", "add", "--detach", wt, "HEAD"], check=True, stdout=subprocess.DEVNULL, stderr=subprocess.DEVNULL)
        print(pid, "worktree", wt, "prompt", len(prompt), "chars;", len(used), "used ideas")


if __name__ == "__main__":
    main()

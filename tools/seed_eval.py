#!/usr/bin/env python3
"""seed_eval.py <worktree> <mutant-dir> <seeded-name> <prop> [more props...]
Confirms a seeded change in its scratch worktree (builds, baseline tests pass, the
demonstration passes without and fails with the change), then applies it to /repo,
runs the listed checks (quick tier), reverts /repo, and stores the bundle under
/verif/seeded/<seeded-name>/ with the outcome in meta.json."""
import json, os, shutil, subprocess, sys, time
ENV = dict(os.environ, GOFLAGS="-mod=mod", GOPROXY="off", GOSUMDB="off", GOTOOLCHAIN="local")

def sh(cmd, cwd=None, timeout=3600):
    p = subprocess.run(cmd, shell=True, cwd=cwd, env=ENV, stdout=subprocess.PIPE, stderr=subprocess.STDOUT, timeout=timeout)
    return p.returncode, p.stdout.decode(errors="replace")

def main():
    wt, mdir, name = sys.argv[1], sys.argv[2], sys.argv[3]
    props = sys.argv[4:]
    patch = os.path.join(mdir, "patch.diff")
    out = {"worktree": wt, "ran": []}
    def note(k, rc, txt=""):
        out["ran"].append({"step": k, "exit": rc, "tail": txt[-600:]})
        print(k, "->", rc)
    sh("git checkout -- . ", cwd=wt)
    demo = os.path.join(mdir, "demo.sh")
    rc, t = sh("bash " + demo, cwd=wt); note("demo on clean worktree (must be 0)", rc, t)
    clean_ok = rc == 0
    rc, t = sh("git apply " + patch, cwd=wt); note("git apply patch in worktree", rc, t)
    rc, t = sh("go build . ./test/... ", cwd=wt); note("go build with change", rc, t); build_ok = rc == 0
    rc, t = sh("go test -vet=off -count=1 . ./test/...", cwd=wt); note("baseline tests with change (must be 0)", rc, t); tests_ok = rc == 0
    rc, t = sh("bash " + demo, cwd=wt); note("demo with change (must be non-zero)", rc, t); demo_fails = rc != 0
    sh("git checkout -- . ", cwd=wt)
    out["confirmed"] = bool(clean_ok and build_ok and tests_ok and demo_fails)
    # our checks against the change
    rc, t = sh("git -C /repo status --porcelain")
    if t.strip():
        print("REFUSING: /repo is dirty:", t); sys.exit(2)
    rc, t = sh("git -C /repo apply " + patch); note("git -C /repo apply", rc, t)
    verdicts = {}
    try:
        if rc == 0:
            for p in props:
                t0 = time.time()
                rc2, t2 = sh("./run.sh %s quick" % p, cwd="/verif")
                lines = [l for l in t2.splitlines() if l.startswith(("VIOLATION", "HELD", "INCONCLUSIVE", "violation", "KNOWN"))]
                verdicts[p] = {"exit": rc2, "seconds": round(time.time() - t0, 1), "lines": [l[:300] for l in lines[:8]]}
                print(p, "exit", rc2, *[l[:200] for l in lines[:3]], sep="\n   ")
    finally:
        sh("git -C /repo checkout -- .")
        # restore evidence of the unchanged tree later (caller reruns); make sure /repo is clean
        rc, t = sh("git -C /repo status --porcelain"); note("/repo clean after revert", 0 if not t.strip() else 1, t)
    out["checks"] = verdicts
    out["caught_by"] = [p for p, v in verdicts.items() if v["exit"] == 1]
    dst = os.path.join("/verif/seeded", name)
    if os.path.exists(dst):
        shutil.rmtree(dst)
    os.makedirs(dst)
    shutil.copy(patch, dst)
    for f in os.listdir(mdir):
        src = os.path.join(mdir, f)
        if f in ("patch.diff",):
            continue
        if os.path.isdir(src):
            # demonstrations only: skip build outputs
            shutil.copytree(src, os.path.join(dst, f), ignore=shutil.ignore_patterns("plugin", "protoc-gen-*", "*.test", "*.bin", "*.exe", "bin"))
        elif os.path.getsize(src) < 2_000_000 and not os.access(src, os.X_OK) or f.endswith(".sh"):
            shutil.copy(src, dst)
    meta = {}
    try:
        meta = json.load(open(os.path.join(mdir, "meta.json")))
    except Exception as e:
        meta = {"note": "agent meta.json unreadable: %s" % e}
    meta["evaluation"] = out
    json.dump(meta, open(os.path.join(dst, "meta.json"), "w"), indent=1)
    print("confirmed:", out["confirmed"], "caught_by:", out["caught_by"])

main()

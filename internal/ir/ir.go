// Package ir is the harness's own description of a proto3 file in the supported
// fragment D (DESIGN.md §3) and of a plugin configuration. Descriptors
// (internal/descgen) and the reference model (internal/refmodel) are both
// derived from it; it shares no code with the plugin under test.
package ir

// Scalar enumerates proto scalar types.
type Scalar int

const (
	Double Scalar = iota
	Float
	Int32
	Int64
	Uint32
	Uint64
	Sint32
	Sint64
	Fixed32
	Fixed64
	Sfixed32
	Sfixed64
	Bool
	String
	Bytes
	NumScalars
)

var scalarNames = [...]string{"double", "float", "int32", "int64", "uint32", "uint64", "sint32", "sint64",
	"fixed32", "fixed64", "sfixed32", "sfixed64", "bool", "string", "bytes"}

func (s Scalar) String() string { return scalarNames[s] }

// GoType returns the Go type gogo uses for a singular field of this scalar.
func (s Scalar) GoType() string {
	switch s {
	case Double:
		return "float64"
	case Float:
		return "float32"
	case Int32, Sint32, Sfixed32:
		return "int32"
	case Int64, Sint64, Sfixed64:
		return "int64"
	case Uint32, Fixed32:
		return "uint32"
	case Uint64, Fixed64:
		return "uint64"
	case Bool:
		return "bool"
	case String:
		return "string"
	case Bytes:
		return "[]byte"
	}
	panic("bad scalar")
}

// TypeKind is the class of a field's element type.
type TypeKind int

const (
	KScalar TypeKind = iota
	KEnum
	KMessage
	KTimestamp // google.protobuf.Timestamp (+stdtime)
	KDuration  // google.protobuf.Duration (+stdduration)
)

// Card is the cardinality of a field.
type Card int

const (
	Single Card = iota
	Repeated
	Map
)

func (c Card) String() string { return [...]string{"single", "repeated", "map"}[c] }

// Field describes one proto field.
type Field struct {
	Name   string
	Number int32
	Card   Card
	Kind   TypeKind
	Scalar Scalar // for KScalar
	Ref    string // enum or message name for KEnum/KMessage
	RefDep bool   // Ref lives in the dependency file
	// Nullable is the explicit gogoproto.nullable option (nil = absent).
	Nullable *bool
	Embed    bool
	StdTime  bool
	StdDur   bool // stdduration (on Duration message, or on int64: fixture oddity)
	CastType string
	// CustomType is the gogoproto.customtype option.
	CustomType string
	JSONTag    *string
	Oneof      int    // index into Message.Oneofs; -1 = none
	Comment    string // raw leading comment as protoc would deliver it ("" = none)
	HasComment bool
	// Trailing / Detached are the other comment kinds of SourceCodeInfo (never part of the description).
	Trailing string
	Detached []string
	// MapKey is the key type of a map field (String in D; others only for C18 faults).
	MapKey Scalar
}

// IsPtr reports whether the Go field (or element / map value) is a pointer.
func (f *Field) IsPtr() bool {
	switch f.Kind {
	case KMessage, KTimestamp, KDuration:
		if f.Oneof >= 0 {
			return true
		}
		return f.Nullable == nil || *f.Nullable
	}
	if f.CustomType != "" {
		return f.Card == Single && (f.Nullable == nil || *f.Nullable)
	}
	return false
}

// Message describes one top-level message.
type Message struct {
	Name       string
	Fields     []*Field
	Oneofs     []string
	Comment    string
	HasComment bool
}

// EnumValue is one enum constant.
type EnumValue struct {
	Name   string
	Number int32
}

// Enum describes a top-level enum.
type Enum struct {
	Name   string
	Values []EnumValue
}

// File describes a proto file.
type File struct {
	Name      string // e.g. "c001.proto"
	Package   string // proto package
	GoPackage string // option go_package, "" = absent
	Messages  []*Message
	Enums     []*Enum
	Dep       *File // optional user dependency file
	// ImportsDescriptor: the file imports google/protobuf/descriptor.proto directly (as files that declare
	// custom options do).
	ImportsDescriptor bool
	// DepUnused: the dependency is in the request but not imported by the file.
	DepUnused bool
}

// Msg looks a message up by name in the file or its dependency.
func (f *File) Msg(name string, dep bool) *Message {
	src := f
	if dep {
		src = f.Dep
	}
	for _, m := range src.Messages {
		if m.Name == name {
			return m
		}
	}
	return nil
}

// Enum looks an enum up by name.
func (f *File) Enum(name string, dep bool) *Enum {
	src := f
	if dep {
		src = f.Dep
	}
	for _, e := range src.Enums {
		if e.Name == name {
			return e
		}
	}
	return nil
}

// SchemaType mirrors the time_type / duration_type option.
type SchemaType struct {
	Type            string `yaml:"type,omitempty" json:"type,omitempty"`
	ValueType       string `yaml:"value_type,omitempty" json:"value_type,omitempty"`
	CastToType      string `yaml:"cast_to_type,omitempty" json:"cast_to_type,omitempty"`
	CastFromType    string `yaml:"cast_from_type,omitempty" json:"cast_from_type,omitempty"`
	TypeConstructor string `yaml:"type_constructor,omitempty" json:"type_constructor,omitempty"`
}

// Injected mirrors one injected_fields entry.
type Injected struct {
	Name          string   `yaml:"name" json:"name"`
	Type          string   `yaml:"type" json:"type"`
	Required      bool     `yaml:"required,omitempty" json:"required,omitempty"`
	Computed      bool     `yaml:"computed,omitempty" json:"computed,omitempty"`
	Optional      bool     `yaml:"optional,omitempty" json:"optional,omitempty"`
	PlanModifiers []string `yaml:"plan_modifiers,omitempty" json:"plan_modifiers,omitempty"`
	Validators    []string `yaml:"validators,omitempty" json:"validators,omitempty"`
}

// Config is a logical plugin configuration (DESIGN.md §3).
type Config struct {
	Types               []string
	Sort                bool
	SortSet             bool // whether sort is mentioned at all
	DefaultPackageName  string
	TargetPackageName   string
	DurationCustomType  string
	UseStateForUnknown  bool
	ExcludeFields       []string
	ComputedFields      []string
	RequiredFields      []string
	SensitiveFields     []string
	Suffixes            map[string]string
	NameOverrides       map[string]string
	Validators          map[string][]string
	PlanModifiers       map[string][]string
	TimeType            *SchemaType
	DurationType        *SchemaType
	InjectedFields      map[string][]Injected
	ImportPathOverrides map[string]string
	CustomTypes         map[string]string
	// SchemaTypes mirrors the schema_types option (per-field Terraform type override).
	SchemaTypes map[string]SchemaType
}

// Clone returns a deep copy of the configuration.
func (c *Config) Clone() *Config {
	d := *c
	cp := func(s []string) []string { return append([]string(nil), s...) }
	d.Types, d.ExcludeFields, d.ComputedFields = cp(c.Types), cp(c.ExcludeFields), cp(c.ComputedFields)
	d.RequiredFields, d.SensitiveFields = cp(c.RequiredFields), cp(c.SensitiveFields)
	cpm := func(m map[string]string) map[string]string {
		if m == nil {
			return nil
		}
		r := map[string]string{}
		for k, v := range m {
			r[k] = v
		}
		return r
	}
	cpl := func(m map[string][]string) map[string][]string {
		if m == nil {
			return nil
		}
		r := map[string][]string{}
		for k, v := range m {
			r[k] = cp(v)
		}
		return r
	}
	d.Suffixes, d.NameOverrides, d.ImportPathOverrides, d.CustomTypes = cpm(c.Suffixes), cpm(c.NameOverrides), cpm(c.ImportPathOverrides), cpm(c.CustomTypes)
	d.Validators, d.PlanModifiers = cpl(c.Validators), cpl(c.PlanModifiers)
	if c.TimeType != nil {
		t := *c.TimeType
		d.TimeType = &t
	}
	if c.DurationType != nil {
		t := *c.DurationType
		d.DurationType = &t
	}
	if c.SchemaTypes != nil {
		d.SchemaTypes = map[string]SchemaType{}
		for k, v := range c.SchemaTypes {
			d.SchemaTypes[k] = v
		}
	}
	if c.InjectedFields != nil {
		d.InjectedFields = map[string][]Injected{}
		for k, v := range c.InjectedFields {
			d.InjectedFields[k] = append([]Injected(nil), v...)
		}
	}
	return &d
}

// B returns a pointer to a bool.
func B(b bool) *bool { return &b }

// S returns a pointer to a string.
func S(s string) *string { return &s }

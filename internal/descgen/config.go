package descgen

import (
	"encoding/json"
	"fmt"
	"math/rand"
	"sort"
	"strings"

	"verif/internal/ir"
)

// CLIKeys maps logical options to the parameter keys the plugin reads.
var CLIKeys = map[string]string{
	"types":                "types",
	"exclude_fields":       "exclude_fields",
	"computed_fields":      "computed_fields",
	"required_fields":      "required_fields",
	"sensitive_fields":     "sensitive",
	"default_package_name": "default_package_name",
	"target_package_name":  "target_package_name",
	"duration_custom_type": "custom_duration",
	"sort":                 "sort",
}

// CLIOptions lists the logical options expressible on both channels, in a fixed order.
var CLIOptions = []string{"types", "exclude_fields", "computed_fields", "required_fields", "sensitive_fields",
	"default_package_name", "target_package_name", "duration_custom_type", "sort"}

// Delivery says how a configuration reaches the plugin.
type Delivery struct {
	// CLI: logical options delivered as plugin parameters instead of YAML.
	CLI map[string]bool
	// Shuffle, when non-nil, permutes YAML key order, set-like lists and `+` lists.
	Shuffle *rand.Rand
	// NoYAML suppresses the config file altogether (everything must be in CLI).
	NoYAML bool
	// Blank: content of the config file when no option is left for it (the file is still named by config=).
	Blank string
	// Anchors: a list entry that occurs in several lists is written once with a YAML anchor and
	// referenced by an alias afterwards.
	Anchors bool
	// RawYAML sections (complete top-level entries, newline-terminated) are added to the YAML document as they are.
	RawYAML []string
	// Extra parameters are added verbatim next to the computed ones (options given on BOTH channels).
	Extra []string
}

func q(s string) string {
	b, _ := json.Marshal(s)
	return string(b)
}

type yamlSection struct {
	key  string
	body string
}

func shuffled(r *rand.Rand, s []string) []string {
	o := append([]string(nil), s...)
	if r != nil {
		r.Shuffle(len(o), func(i, j int) { o[i], o[j] = o[j], o[i] })
	}
	return o
}

func sortedKeys(r *rand.Rand, n int, key func(i int) string) []int {
	idx := make([]int, n)
	for i := range idx {
		idx[i] = i
	}
	sort.Slice(idx, func(a, b int) bool { return key(idx[a]) < key(idx[b]) })
	if r != nil {
		r.Shuffle(n, func(i, j int) { idx[i], idx[j] = idx[j], idx[i] })
	}
	return idx
}

func mapKeys(r *rand.Rand, m interface{}) []string {
	var ks []string
	switch t := m.(type) {
	case map[string]string:
		for k := range t {
			ks = append(ks, k)
		}
	case map[string][]string:
		for k := range t {
			ks = append(ks, k)
		}
	case map[string][]ir.Injected:
		for k := range t {
			ks = append(ks, k)
		}
	}
	sort.Strings(ks)
	return shuffled(r, ks)
}

func schemaTypeYAML(st *ir.SchemaType) string {
	var b strings.Builder
	add := func(k, v string) {
		if v != "" {
			fmt.Fprintf(&b, "  %s: %s\n", k, q(v))
		}
	}
	add("type", st.Type)
	add("value_type", st.ValueType)
	add("cast_to_type", st.CastToType)
	add("cast_from_type", st.CastFromType)
	add("type_constructor", st.TypeConstructor)
	return b.String()
}

// Emit renders the YAML text and the option part of the parameter string
// (without the config=... entry).
func Emit(c *ir.Config, d Delivery) (yaml string, params []string) {
	var secs []yamlSection
	list := func(key string, v []string) {
		if len(v) == 0 {
			return
		}
		if d.CLI[key] {
			params = append(params, CLIKeys[key]+"="+strings.Join(shuffled(d.Shuffle, v), "+"))
			return
		}
		var b strings.Builder
		for _, e := range shuffled(d.Shuffle, v) {
			fmt.Fprintf(&b, "  - %s\n", q(e))
		}
		secs = append(secs, yamlSection{key, key + ":\n" + b.String()})
	}
	str := func(key, v string) {
		if v == "" {
			return
		}
		if d.CLI[key] {
			params = append(params, CLIKeys[key]+"="+v)
			return
		}
		secs = append(secs, yamlSection{key, key + ": " + q(v) + "\n"})
	}
	list("types", c.Types)
	list("exclude_fields", c.ExcludeFields)
	list("computed_fields", c.ComputedFields)
	list("required_fields", c.RequiredFields)
	list("sensitive_fields", c.SensitiveFields)
	str("default_package_name", c.DefaultPackageName)
	str("target_package_name", c.TargetPackageName)
	str("duration_custom_type", c.DurationCustomType)
	if c.Sort || c.SortSet {
		if d.CLI["sort"] {
			params = append(params, fmt.Sprintf("sort=%v", c.Sort))
		} else {
			secs = append(secs, yamlSection{"sort", fmt.Sprintf("sort: %v\n", c.Sort)})
		}
	}
	if c.UseStateForUnknown {
		secs = append(secs, yamlSection{"use_state_for_unknown_by_default", "use_state_for_unknown_by_default: true\n"})
	}
	smap := func(key string, m map[string]string) {
		if len(m) == 0 {
			return
		}
		var b strings.Builder
		for _, k := range mapKeys(d.Shuffle, m) {
			fmt.Fprintf(&b, "  %s: %s\n", q(k), q(m[k]))
		}
		secs = append(secs, yamlSection{key, key + ":\n" + b.String()})
	}
	lmap := func(key string, m map[string][]string) {
		if len(m) == 0 {
			return
		}
		var b strings.Builder
		for _, k := range mapKeys(d.Shuffle, m) {
			if len(m[k]) == 0 {
				fmt.Fprintf(&b, "  %s: []\n", q(k)) // an explicit empty list switches the option off for this key
				continue
			}
			fmt.Fprintf(&b, "  %s:\n", q(k))
			for _, e := range m[k] { // order is meaningful: never shuffled
				fmt.Fprintf(&b, "    - %s\n", q(e))
			}
		}
		secs = append(secs, yamlSection{key, key + ":\n" + b.String()})
	}
	smap("suffixes", c.Suffixes)
	smap("name_overrides", c.NameOverrides)
	smap("import_path_overrides", c.ImportPathOverrides)
	smap("custom_types", c.CustomTypes)
	lmap("validators", c.Validators)
	lmap("plan_modifiers", c.PlanModifiers)
	if c.TimeType != nil {
		secs = append(secs, yamlSection{"time_type", "time_type:\n" + schemaTypeYAML(c.TimeType)})
	}
	if c.DurationType != nil {
		secs = append(secs, yamlSection{"duration_type", "duration_type:\n" + schemaTypeYAML(c.DurationType)})
	}
	if len(c.SchemaTypes) > 0 {
		var ks []string
		for k := range c.SchemaTypes {
			ks = append(ks, k)
		}
		sort.Strings(ks)
		ks = shuffled(d.Shuffle, ks)
		var b strings.Builder
		for _, k := range ks {
			st := c.SchemaTypes[k]
			fmt.Fprintf(&b, "  %s:\n", q(k))
			for _, l := range strings.Split(strings.TrimRight(schemaTypeYAML(&st), "\n"), "\n") {
				b.WriteString("  " + l + "\n")
			}
		}
		secs = append(secs, yamlSection{"schema_types", "schema_types:\n" + b.String()})
	}
	if len(c.InjectedFields) > 0 {
		var b strings.Builder
		for _, k := range mapKeys(d.Shuffle, c.InjectedFields) {
			fmt.Fprintf(&b, "  %s:\n", q(k))
			inj := append([]ir.Injected(nil), c.InjectedFields[k]...)
			if d.Shuffle != nil { // the attributes of a message form a set: their order in the list is immaterial
				d.Shuffle.Shuffle(len(inj), func(i, j int) { inj[i], inj[j] = inj[j], inj[i] })
			}
			for _, f := range inj {
				fmt.Fprintf(&b, "    - name: %s\n      type: %s\n", q(f.Name), q(f.Type))
				if f.Required {
					b.WriteString("      required: true\n")
				}
				if f.Computed {
					b.WriteString("      computed: true\n")
				}
				if f.Optional {
					b.WriteString("      optional: true\n")
				}
				if len(f.Validators) > 0 {
					b.WriteString("      validators:\n")
					for _, v := range f.Validators {
						fmt.Fprintf(&b, "        - %s\n", q(v))
					}
				}
				if len(f.PlanModifiers) > 0 {
					b.WriteString("      plan_modifiers:\n")
					for _, v := range f.PlanModifiers {
						fmt.Fprintf(&b, "        - %s\n", q(v))
					}
				}
			}
		}
		secs = append(secs, yamlSection{"injected_fields", "injected_fields:\n" + b.String()})
	}
	for i, raw := range d.RawYAML {
		secs = append(secs, yamlSection{fmt.Sprintf("raw%d", i), raw})
	}
	params = append(params, d.Extra...)
	if d.Shuffle != nil {
		d.Shuffle.Shuffle(len(secs), func(i, j int) { secs[i], secs[j] = secs[j], secs[i] })
		d.Shuffle.Shuffle(len(params), func(i, j int) { params[i], params[j] = params[j], params[i] })
	}
	var b strings.Builder
	b.WriteString("---\n")
	for _, s := range secs {
		b.WriteString(s.body)
	}
	if d.NoYAML {
		return "", params
	}
	if len(secs) == 0 {
		return d.Blank, params
	}
	if d.Anchors {
		return anchored(b.String()), params
	}
	return b.String(), params
}

// anchored rewrites repeated items of the top-level lists: first occurrence `- &aN "v"`, later ones `- *aN`.
func anchored(y string) string {
	lines := strings.Split(y, "\n")
	count := map[string]int{}
	for _, l := range lines {
		if strings.HasPrefix(l, "  - \"") {
			count[l]++
		}
	}
	name := map[string]string{}
	for i, l := range lines {
		if !strings.HasPrefix(l, "  - \"") || count[l] < 2 {
			continue
		}
		if a, ok := name[l]; ok {
			lines[i] = "  - *" + a
		} else {
			a := fmt.Sprintf("a%d", len(name)+1)
			name[l] = a
			lines[i] = "  - &" + a + " " + strings.TrimPrefix(l, "  - ")
		}
	}
	return strings.Join(lines, "\n")
}

// Param joins the parameters with the config path.
func Param(params []string, yamlPath string) string {
	p := append([]string(nil), params...)
	if yamlPath != "" {
		p = append(p, "config="+yamlPath)
	}
	return strings.Join(p, ",")
}

package descgen

import (
	"fmt"
	"strings"

	"verif/internal/ir"
)

// Entry is one corpus member: a descriptor plus a base configuration.
type Entry struct {
	Name string
	File *ir.File
	Cfg  *ir.Config
	Tags []string
	// ExtraParams: plugin parameters given in addition to the YAML file (both channels set the option).
	ExtraParams []string
	// RawYAML: complete top-level YAML entries added to the configuration file as they are.
	RawYAML []string
	// Pinned: exclusions the entry's name overrides depend on (kept by OptionVariant).
	Pinned []string
}

func file(name string, msgs ...*ir.Message) *ir.File {
	return &ir.File{Name: name + ".proto", Package: name, Messages: msgs}
}

var allScalars = []ir.Scalar{ir.Double, ir.Float, ir.Int32, ir.Int64, ir.Uint32, ir.Uint64, ir.Sint32, ir.Sint64,
	ir.Fixed32, ir.Fixed64, ir.Sfixed32, ir.Sfixed64, ir.Bool, ir.String, ir.Bytes}

var scalarWord = map[ir.Scalar]string{ir.Double: "Double", ir.Float: "Float", ir.Int32: "Int32", ir.Int64: "Int64", ir.Uint32: "Uint32",
	ir.Uint64: "Uint64", ir.Sint32: "Sint32", ir.Sint64: "Sint64", ir.Fixed32: "Fixed32", ir.Fixed64: "Fixed64", ir.Sfixed32: "Sfixed32",
	ir.Sfixed64: "Sfixed64", ir.Bool: "Bool", ir.String: "String", ir.Bytes: "Bytes"}

func modeEnum() *ir.Enum {
	return &ir.Enum{Name: "Mode", Values: []ir.EnumValue{{"UNKNOWN", 0}, {"ON", 1}, {"OFF", 2}, {"AUTO", 7}}}
}

// K1: a clone of the repository's test.proto (teleport-like).
func K1() *Entry {
	test := M("Test",
		F("Str", JSON("str1"), Cmt(" Str string field\n")),
		F("Int32", Sc(ir.Int32), Cmt(" Int32 int32 field\n")),
		F("Int64", Sc(ir.Int64)),
		F("Float", Sc(ir.Float)),
		F("Double", Sc(ir.Double)),
		F("Bool", Sc(ir.Bool)),
		F("bytes", Sc(ir.Bytes), Cmt(" bytes byte[] field\n")),
		F("Timestamp", TS(), NonNull()),
		F("TimestampMissing", TS(), NonNull()),
		F("TimestampNullable", TS(), Null()),
		F("TimestampNullableWithNilValue", TS(), Null()),
		F("DurationStandard", StdDurInt()),
		F("DurationStandardMissing", StdDurInt()),
		F("DurationCustom", Sc(ir.Int64), Cast("Duration")),
		F("DurationCustomMissing", Sc(ir.Int64), Cast("Duration")),
		// cast types whose names merely contain the configured duration type name stay plain integers
		F("BillingSpan", Sc(ir.Int64), Cast("BillingDuration")),
		F("SecondsSpan", Sc(ir.Int64), Cast("DurationSeconds")),
		F("BillingSpans", Sc(ir.Int64), Rep(), Cast("BillingDuration")),
		F("BackoffSpan", Sc(ir.Double), Cast("BackoffDuration")),
		F("StringList", Rep()),
		F("StringListEmpty", Rep()),
		F("BoolCustomList", Sc(ir.Bool), Rep(), Custom("CustomB")),
		F("BytesList", Sc(ir.Bytes), Rep()),
		F("TimestampList", TS(), Rep()),
		F("DurationCustomList", Sc(ir.Int64), Rep(), Cast("Duration")),
		F("Nested", MsgT("Nested"), NonNull()),
		F("NestedNullable", MsgT("Nested"), Null()),
		F("NestedNullableWithNilValue", MsgT("Nested"), Null()),
		F("NestedList", MsgT("Nested"), Rep(), NonNull()),
		F("NestedListNullable", MsgT("Nested"), Rep(), Null()),
		F("Map", MapOf()),
		F("MapObject", MsgT("Nested"), MapOf(), NonNull()),
		F("MapObjectNullable", MsgT("Nested"), MapOf(), Null()),
		F("Mode", EnumT("Mode")),
		F("Excluded", Sc(ir.Bool)),
		F("Branch1", MsgT("Branch1"), In(0), Cmt(" Branch1 is the first oneOf branch\n")),
		F("Branch2", MsgT("Branch2"), In(0)),
		F("Branch3", In(0)),
		F("EmptyMessageBranch", MsgT("EmptyMessageBranch"), In(1)),
		F("StringBranch", In(1)),
		F("EmbeddedField", MsgT("EmbeddedField"), NonNull(), Embed()),
		F("EmbedNullable", MsgT("MaxAgeDuration"), Embed()),
		F("StringOverride"),
		F("foo", In(2)),
		F("bar", In(2)),
	)
	WithOneofs(test, "OneOf", "OneOfWithEmptyMessage", "lower_snake_oneof")
	f := file("k1",
		test,
		M("MaxAgeDuration", F("Value", Sc(ir.Int64), JSON("max_age"), Cast("Duration"))),
		M("EmptyMessageBranch"),
		M("Nested", F("Str"), F("NestedList", MsgT("OtherNested"), Rep()), F("Map", MapOf()), F("MapObjectNested", MsgT("OtherNested"), MapOf(), NonNull())),
		M("OtherNested", F("Str")),
		M("Branch1", F("Str")),
		M("Branch2", F("Int32", Sc(ir.Int32))),
		M("EmbeddedField", F("EmbeddedString", JSON("embedded_string")), F("EmbeddedNestedField", MsgT("EmbeddedNestedField"))),
		M("EmbeddedNestedField", F("EmbeddedNestedString", JSON("embedded_nested_string"))),
	)
	f.Enums = []*ir.Enum{modeEnum()}
	AutoComments(f)
	c := BaseConfig("Test")
	c.UseStateForUnknown = true
	c.ExcludeFields = []string{"Test.Excluded"}
	c.ComputedFields = []string{"Test.Str"}
	c.RequiredFields = []string{"Test.Str"}
	c.SensitiveFields = []string{"Test.Str"}
	c.Suffixes = map[string]string{"CustomB": "BoolSpecial"}
	c.NameOverrides = map[string]string{"Test.Str": "str"}
	c.InjectedFields = map[string][]ir.Injected{"Test": {{Name: "id", Type: "github.com/hashicorp/terraform-plugin-framework/types.StringType", Computed: true}}}
	c.PlanModifiers = map[string][]string{"Test.Str": {USFU}}
	c.Validators = map[string][]string{"Test.Str": {V("mock")}}
	c.CustomTypes = map[string]string{"Test.StringOverride": "StringCustom"}
	return &Entry{Name: "k1", File: f, Cfg: c, Tags: []string{"teleport-like", "oneof", "embed", "embed?", "custom", "time", "duration", "enum", "map", "list", "empty-msg", "excluded", "injected"}}
}

// K2: scalar matrix, 15 scalars x {singular, repeated, map value, oneof branch}.
func K2() *Entry {
	var fs []*ir.Field
	for _, s := range allScalars {
		w := scalarWord[s]
		fs = append(fs, F("One"+w, Sc(s)), F("Many"+w, Sc(s), Rep()))
		fs = append(fs, F("Dict"+w, Sc(s), MapOf()))
		fs = append(fs, F("Alt"+w, Sc(s), In(0)))
	}
	m := WithOneofs(M("Matrix", fs...), "Choice")
	f := file("k2", m)
	f.ImportsDescriptor = true // as a file that declares custom options does
	AutoComments(f)
	return &Entry{Name: "k2", File: f, Cfg: BaseConfig("Matrix"), Tags: []string{"scalar-matrix", "oneof", "map", "list"}}
}

// K3: enum / time / duration matrix.
func K3() *Entry {
	m := M("Temporal",
		F("Kind", EnumT("Mode")), F("Kinds", EnumT("Mode"), Rep()), F("KindDict", EnumT("Mode"), MapOf()),
		F("At", TS(), NonNull()), F("AtMaybe", TS(), Null()), F("Ats", TS(), Rep(), NonNull()), F("AtsMaybe", TS(), Rep()),
		F("AtDict", TS(), MapOf(), NonNull()), F("AtDictMaybe", TS(), MapOf()),
		F("Span", Dur(), NonNull()), F("SpanMaybe", Dur(), Null()), F("Spans", Dur(), Rep(), NonNull()), F("SpansMaybe", Dur(), Rep()),
		F("SpanDict", Dur(), MapOf(), NonNull()), F("SpanDictMaybe", Dur(), MapOf()),
		F("SpanInt", StdDurInt()), F("SpanCast", Sc(ir.Int64), Cast("Duration")), F("SpanCasts", Sc(ir.Int64), Rep(), Cast("Duration")),
		// the other proto kinds whose Go type is int64
		F("SpanSigned", Sc(ir.Sint64), Cast("Duration")), F("SpanFixed", Sc(ir.Sfixed64), Cast("Duration")), F("SpanSigneds", Sc(ir.Sint64), Rep(), Cast("Duration")),
		F("KindAlt", EnumT("Mode"), In(0)), F("AtAlt", TS(), In(0)), F("SpanAlt", Dur(), In(0)),
	)
	WithOneofs(m, "Pick")
	f := file("k3", m)
	f.Enums = []*ir.Enum{modeEnum()}
	AutoComments(f)
	c := BaseConfig("Temporal")
	c.TimeType = TimeUnqualified(false)
	c.DurationType = DurUnqualified(true)
	return &Entry{Name: "k3", File: f, Cfg: c, Tags: []string{"enum", "time", "duration", "oneof", "unqualified-types"}}
}

// K4: cast and custom types.
func K4() *Entry {
	m := M("Casts",
		F("Text", Cast("CastString")), F("Blob", Sc(ir.Bytes), Cast("CastBytes")), F("Flag", Sc(ir.Bool), Cast("CastBool")),
		F("Small", Sc(ir.Int32), Cast("CastInt32")), F("Big", Sc(ir.Int64), Cast("CastInt64")), F("Ratio", Sc(ir.Float), Cast("CastFloat")),
		F("Texts", Rep(), Cast("CastString")), F("Bigs", Sc(ir.Int64), Rep(), Cast("CastInt64")),
		F("Ext", Cast("verif/rt/tfx.XString")), F("ExtNum", Sc(ir.Int64), Cast("verif/rt/tfx.XInt64")), F("ExtNums", Sc(ir.Int32), Rep(), Cast("verif/rt/tfx.XInt32")),
		F("TextAlt", Cast("CastString"), In(0)), F("BigAlt", Sc(ir.Int64), Cast("CastInt64"), In(0)),
		// cast types that are Go builtins but not the scalar types protobuf itself uses
		F("CountInt", Sc(ir.Int64), Cast("int")), F("CountInts", Sc(ir.Int64), Rep(), Cast("int")), F("Letter", Sc(ir.Int32), Cast("rune")), F("Total", Sc(ir.Uint64), Cast("uint")),
		F("Opaque", Sc(ir.Bytes), Custom("CustomA")), F("OpaqueValue", Sc(ir.Bytes), Custom("CustomA"), NonNull()),
		F("Switches", Sc(ir.Bool), Rep(), Custom("CustomB")),
		// the same custom types once more: a suffixes entry serves every field of its type
		F("Toggle", Sc(ir.Bool), Custom("CustomB"), NonNull()), F("PlainToo"),
		F("Joined"), F("Plain"),
		// custom type names with underscores keep them in the default suffix (only dots and slashes go)
		F("Under", Sc(ir.Bytes), Custom("Custom_C")), F("UnderPath"),
	)
	WithOneofs(m, "Either")
	f := file("k4", m)
	AutoComments(f)
	c := BaseConfig("Casts")
	// custom types through configuration: one with the default suffix, one with a suffixes entry
	c.CustomTypes = map[string]string{"Casts.Joined": "verif/types.Joined", "Casts.Plain": "verif/types.Labels", "Casts.PlainToo": "verif/types.Labels", "Casts.UnderPath": "verif/my_lib/api_v2.Owner_Ref"}
	// (suffixes are taken verbatim: acronyms, digits before capitals)
	c.Suffixes = map[string]string{"CustomB": "Switch", "verif/types.Labels": "HTTPLabelsV2",
		// entries for other packages' types of the same simple name as a custom type used here (they match nothing)
		"github.com/acme/api/wrappers.CustomA": "WrappedA", "github.com/acme/lib/utils.CustomA": "UtilA", "example.com/x.Joined": "OtherJoined", "example.com/y.Joined": "YetAnotherJoined"}
	// an import override for the package that qualifies custom type names (the names only make the hook suffix)
	c.ImportPathOverrides = map[string]string{"verif/types": "example.com/elsewhere/types", "verif/my_lib/api_v2": "example.com/elsewhere/api"}
	return &Entry{Name: "k4", File: f, Cfg: c, Tags: []string{"cast", "custom", "oneof"}}
}

// K5: message matrix (nullable x cardinality, depth 3, empty messages).
func K5() *Entry {
	// (fields named like those of a map entry, next to a map)
	leaf := M("Leaf", F("Name"), F("Count", Sc(ir.Int64)), F("Tags", Rep()), F("Labels", MapOf()), F("key"), F("value", Sc(ir.Int64)))
	mid := M("Mid", F("Title"), F("One", MsgT("Leaf"), NonNull()), F("Maybe", MsgT("Leaf")), F("Many", MsgT("Leaf"), Rep(), NonNull()),
		F("ManyMaybe", MsgT("Leaf"), Rep()), F("Dict", MsgT("Leaf"), MapOf(), NonNull()), F("DictMaybe", MsgT("Leaf"), MapOf()), F("Nothing", MsgT("Void")))
	top := M("Top", F("Id", JSON("id")), F("One", MsgT("Mid"), NonNull()), F("Maybe", MsgT("Mid")), F("Many", MsgT("Mid"), Rep(), NonNull()),
		F("ManyMaybe", MsgT("Mid"), Rep()), F("Dict", MsgT("Mid"), MapOf(), NonNull()), F("DictMaybe", MsgT("Mid"), MapOf()),
		F("Nothing", MsgT("Void")), F("NothingValue", MsgT("Void"), NonNull()),
		F("Nothings", MsgT("Void"), Rep()), F("NothingValues", MsgT("Void"), Rep(), NonNull()), F("NothingDict", MsgT("Void"), MapOf()), F("NothingValueDict", MsgT("Void"), MapOf(), NonNull()))
	f := file("k5", top, mid, leaf, M("Void"))
	AutoComments(f)
	return &Entry{Name: "k5", File: f, Cfg: BaseConfig("Top"), Tags: []string{"msg-matrix", "empty-msg", "depth3"}}
}

// K6: embeds. variant 0: by-value embeds only; 1: nullable embed whose children
// have no zero literal (durations/times); 2: nullable embed with every kind of child.
func K6(variant int) *Entry {
	switch variant {
	case 0:
		inner := M("Inner", F("InnerName"), F("InnerCount", Sc(ir.Int32)), F("InnerTags", Rep()), F("InnerDict", MapOf()), F("InnerLeaf", MsgT("Leaf")),
			F("InnerWhen", TS(), Null()), F("InnerKind", EnumT("Mode")))
		deep := M("Deep", F("DeepName"), F("DeepInner", MsgT("Inner2"), NonNull(), Embed()))
		inner2 := M("Inner2", F("SecondName"), F("SecondCount", Sc(ir.Uint32)))
		holder := M("Holder", F("Title"), F("Inner", MsgT("Inner"), NonNull(), EmbedTag("inner_tag")), F("Deep", MsgT("Deep"), NonNull(), EmbedTag("deep,omitempty")),
			F("Sub", MsgT("SubHolder")), F("Subs", MsgT("SubHolder"), Rep()))
		sub := M("SubHolder", F("SubTitle"), F("SubInner", MsgT("Inner2"), NonNull(), Embed()))
		f := file("k6a", holder, inner, deep, inner2, sub, M("Leaf", F("Name")))
		f.Enums = []*ir.Enum{modeEnum()}
		AutoComments(f)
		return &Entry{Name: "k6a", File: f, Cfg: BaseConfig("Holder"), Tags: []string{"embed", "embed-in-nested"}}
	case 1:
		opt := M("Timing", F("MaxAge", Sc(ir.Int64), JSON("max_age"), Cast("Duration")), F("Deadline", TS(), NonNull()), F("Grace", Dur(), NonNull()))
		holder := M("Policy", F("Title"), F("Timing", MsgT("Timing"), EmbedTag("timing,omitempty")), F("Count", Sc(ir.Int64)))
		f := file("k6b", holder, opt)
		AutoComments(f)
		return &Entry{Name: "k6b", File: f, Cfg: BaseConfig("Policy"), Tags: []string{"embed?", "embed?-temporal-only"}}
	case 3:
		// embedded messages without fields (by value first in the declaration order, nullable inside a nested message); sort off
		holder := M("Marked", F("Marker", MsgT("Void"), NonNull(), Embed()), F("Name"), F("Count", Sc(ir.Int64)), F("Sub", MsgT("MarkedSub")), F("Subs", MsgT("MarkedSub"), Rep(), NonNull()),
			// ... and a nested message that declares such an embed before its own fields
			F("Lead", MsgT("MarkedLead")), F("Leads", MsgT("MarkedLead"), Rep()), F("LeadValue", MsgT("MarkedLead"), NonNull()))
		sub := M("MarkedSub", F("SubName"), F("Flag", MsgT("Void2"), Embed()), F("SubCount", Sc(ir.Int32)))
		lead := M("MarkedLead", F("Mark", MsgT("Void"), NonNull(), Embed()), F("LeadName"), F("LeadCount", Sc(ir.Int32)))
		f := file("k6d", holder, sub, lead, M("Void"), M("Void2"))
		AutoComments(f)
		c := BaseConfig("Marked")
		c.Sort, c.SortSet = false, true
		return &Entry{Name: "k6d", File: f, Cfg: c, Tags: []string{"embed", "embed?", "embedded-empty-msg", "sort-off"}}
	case 5:
		// a by-value embed inside a nullable embed (and the other way round): scalar children only
		inner := M("InnerPart", F("InnerLabel"), F("InnerCount", Sc(ir.Int64)), F("InnerWhen", TS(), NonNull()))
		outer := M("OuterPart", F("OuterLabel"), F("InnerPart", MsgT("InnerPart"), NonNull(), Embed()), F("OuterFlag", Sc(ir.Bool)))
		deep := M("DeepPart", F("DeepLabel"), F("DeepRatio", Sc(ir.Double)))
		wrap := M("WrapPart", F("WrapLabel"), F("DeepPart", MsgT("DeepPart"), Embed()))
		side := M("SidePart", F("SideLabel"), F("SideCount", Sc(ir.Int32)))
		// (two nullable embeds in one message)
		holder := M("Nest", F("Title"), F("OuterPart", MsgT("OuterPart"), Embed()), F("WrapPart", MsgT("WrapPart"), NonNull(), Embed()), F("Count", Sc(ir.Int32)), F("SidePart", MsgT("SidePart"), Embed()),
			F("Sub", MsgT("NestSub")), F("Subs", MsgT("NestSub"), Rep()))
		sub := M("NestSub", F("SubLabel"), F("OuterPart", MsgT("OuterPart"), Embed()))
		f := file("k6f", holder, outer, inner, deep, wrap, sub, side)
		AutoComments(f)
		return &Entry{Name: "k6f", File: f, Cfg: BaseConfig("Nest"), Tags: []string{"embed", "embed?", "embed-in-embed"}}
	case 4:
		// excluded children of embedded messages (nullable and by value): the struct fields exist, the schema does not describe them
		meta := M("Meta", F("MetaName"), F("Revision", Sc(ir.Int64)), F("Internal"), F("HiddenBlob", Sc(ir.Bytes)), F("When", TS(), Null()))
		audit := M("Audit", F("AuditNote"), F("AuditSecret"), F("AuditCount", Sc(ir.Int32)))
		holder := M("Record", F("Title"), F("Meta", MsgT("Meta"), Embed()), F("Audit", MsgT("Audit"), NonNull(), Embed()), F("Count", Sc(ir.Int64)), F("Skipped"))
		f := file("k6e", holder, meta, audit)
		AutoComments(f)
		c := BaseConfig("Record")
		c.ExcludeFields = []string{"Meta.Internal", "Record.HiddenBlob", "Audit.AuditSecret", "Record.Skipped"}
		return &Entry{Name: "k6e", File: f, Cfg: c, Tags: []string{"embed", "embed?", "excluded-embed-child"}}
	default:
		opt := M("Extra", F("ExtraName"), F("ExtraCount", Sc(ir.Int64)), F("ExtraFlag", Sc(ir.Bool)), F("ExtraKind", EnumT("Mode")), F("ExtraBlob", Sc(ir.Bytes)),
			F("ExtraWhen", TS(), Null()), F("ExtraSpan", Dur(), NonNull()), F("ExtraTags", Rep()), F("ExtraDict", MapOf()), F("ExtraLeaf", MsgT("Leaf")),
			F("ExtraLeafValue", MsgT("Leaf"), NonNull()), F("ExtraLeaves", MsgT("Leaf"), Rep()))
		holder := M("Carrier", F("Title"), F("Extra", MsgT("Extra"), Embed()), F("Count", Sc(ir.Int64)))
		f := file("k6c", holder, opt, M("Leaf", F("Name")))
		f.Enums = []*ir.Enum{modeEnum()}
		AutoComments(f)
		return &Entry{Name: "k6c", File: f, Cfg: BaseConfig("Carrier"), Tags: []string{"embed?", "embed?-all-kinds"}}
	}
}

// K7: oneofs (several groups, lower_snake names, scalar / enum / message /
// empty-message / time branches, oneofs inside nested, list and map messages).
func K7() *Entry {
	choice := M("Choice",
		F("Label"),
		F("Text", In(0)), F("Number", Sc(ir.Int64), In(0), JSON("number_value")), F("Flag", Sc(ir.Bool), In(0), JSON("flag_set")), F("Kind", EnumT("Mode"), In(0)), F("Raw", Sc(ir.Bytes), In(0)),
		F("Ratio", Sc(ir.Double), In(0)),
		F("Sub", MsgT("Payload"), In(1)), F("Other", MsgT("Payload2"), In(1)), F("Nothing", MsgT("Void"), In(1)), F("Word", In(1)),
		F("at_time", TS(), In(2)), F("for_span", Dur(), In(2)), F("plain_text", In(2)),
	)
	// (an acronym in a oneof name is harmless: no attribute name derives from it)
	WithOneofs(choice, "Basic", "ShapeID", "lower_snake_pick")
	outer := M("Outer", F("Name"), F("Direct", MsgT("Choice"), NonNull()), F("Maybe", MsgT("Choice")), F("Many", MsgT("Choice"), Rep()),
		F("Dict", MsgT("Choice"), MapOf()), F("Left", In(0)), F("Right", Sc(ir.Int32), In(0)))
	WithOneofs(outer, "Side")
	f := file("k7", outer, choice, M("Payload", F("Str"), F("Items", Rep())), M("Payload2", F("Int32", Sc(ir.Int32))), M("Void"))
	f.Enums = []*ir.Enum{modeEnum()}
	AutoComments(f)
	return &Entry{Name: "k7", File: f, Cfg: BaseConfig("Outer", "Choice"), Tags: []string{"oneof", "oneof-nested", "empty-msg", "multi-root"}}
}

// K7X: K7 with the first declared branch of two oneof groups excluded (by Message.Field and by path).
func K7X() *Entry {
	e := K7()
	Rename(e, "k7x")
	e.Cfg.ExcludeFields = []string{"Choice.Text", "Outer.Left", "Outer.Direct.Sub"}
	e.Tags = append(e.Tags, "excluded-oneof-branch")
	return e
}

// K8: naming (json tags, overrides, lower_snake, acronyms with a fixed name).
func K8() *Entry {
	m := M("Naming",
		F("PlainName", Cmt(" PlainName is the name of the package to install\n package main\n")), F("lower_snake_name"), F("single"), F("WithDigits2"),
		// lower_snake segments that end in digits or are single letters: the attribute name is the proto name itself
		F("ipv4_addr"), F("sha256_sum", Sc(ir.Bytes)), F("s3_bucket"), F("a_b_c", Sc(ir.Int32)), F("x2_y2_z", Rep()), F("Tagged", JSON("tagged_name")), F("TaggedOmit", JSON("tagged_omit,omitempty")),
		F("TagDash", JSON("-")), F("TagEmpty", JSON("")), F("TagDashOmit", JSON("-,omitempty")), F("TagOnlyOmit", JSON(",omitempty")), F("type"), F("range", Sc(ir.Int64)),
		// real fields whose attribute is called like the placeholder of a message without fields
		F("Active", Sc(ir.Int64)), F("tag_only_string", Sc(ir.Int64), JSON(",string")),
		F("ID", JSON("id")), F("AWSRoleARNs", Rep()), F("DurMP", Sc(ir.Int64)), F("Overridden", JSON("tag_loses")),
		F("ByTypeKey"), F("Child", MsgT("NamedChild")), F("Children", MsgT("NamedChild"), Rep()),
		// json tags and overrides are taken verbatim: camelCase, acronyms, hyphens
		F("CamelTagged", JSON("camelTagged")), F("MixedTag", Sc(ir.Int64), JSON("sessionTTL,omitempty")), F("HyphenTag", JSON("single-item")), F("CamelOverride"),
		// fields named like the synthetic fields of a map entry, next to maps of the same element type
		F("Key"), F("Value"), F("ZoneLabels", MapOf()), F("ZoneCounts", Sc(ir.Int64), MapOf()), F("value_count", Sc(ir.Int64)),
	)
	child := M("NamedChild", F("Enabled", JSON("active,omitempty")), F("InnerPlain"), F("inner_snake"), F("tier1_name"), F("v_x"), F("key", Sc(ir.Int64)), F("value", Sc(ir.Int64)), F("weights", Sc(ir.Int64), MapOf()), F("InnerTagged", JSON("inner_tag")), F("InnerByPath"), F("InnerByKey"))
	f := file("k8", m, child)
	AutoComments(f)
	c := BaseConfig("Naming")
	c.NameOverrides = map[string]string{
		"Naming.AWSRoleARNs":          "aws_arns",
		"Naming.CamelOverride":        "camelOverride",
		"Naming.DurMP":                "dur_mp",
		"Naming.Overridden":           "override_wins",
		"Naming.ByTypeKey":            "by_type_key_renamed",
		"Naming.Child.InnerByPath":    "inner_path_renamed",
		"NamedChild.InnerByKey":       "inner_key_renamed",
		"Naming.Children.InnerByPath": "inner_path_renamed_in_list",
	}
	// two adjacent excluded fields; an override that reuses the attribute name of an excluded field
	c.ExcludeFields = []string{"Naming.single", "Naming.WithDigits2", "NamedChild.v_x"}
	c.NameOverrides["Naming.lower_snake_name"] = "single"
	// fields whose only comment is a trailing / detached one have an empty description
	for _, n := range []string{"Key", "Value", "HyphenTag"} {
		for _, fl := range m.Fields {
			if fl.Name == n {
				fl.Comment, fl.HasComment = "", false
				Trail(" " + n + " has a same-line remark only\n")(fl)
			}
		}
	}
	return &Entry{Name: "k8", File: f, Cfg: c, Tags: []string{"naming", "json-tag", "name-override"}, Pinned: []string{"Naming.single"}}
}

// K9: one message type at several paths (also through lists, maps and embeds).
func K9() *Entry {
	meta := M("Meta", F("Name"), F("Labels", MapOf()), F("Revision", Sc(ir.Int64)), F("Expires", TS(), Null()), F("Owner", MsgT("Owner")))
	owner := M("Owner", F("Login"), F("Email"))
	user := M("User", F("Meta", MsgT("Meta"), NonNull()), F("Backup", MsgT("Meta")), F("History", MsgT("Meta"), Rep()), F("ByName", MsgT("Meta"), MapOf()),
		F("Spec", MsgT("UserSpec"), NonNull()), F("Title"),
		// `Tag.Label` (Message.Field key) is excluded; `PriceTag.Label` ends with the same text and must stay
		F("Tag", MsgT("Tag")), F("PriceTag", MsgT("PriceTag")))
	tag := M("Tag", F("Label"), F("Weight", Sc(ir.Int32)))
	// (same field name as Tag.Label, another attribute name: names are derived per field, not per field name)
	priceTag := M("PriceTag", F("Label", JSON("price_label,omitempty")), F("Amount", Sc(ir.Int64)), F("Weight", Sc(ir.Int32), JSON("gross_weight")))
	spec := M("UserSpec", F("Meta", MsgT("Meta")), F("Common", MsgT("Common"), NonNull(), Embed()), F("Level", Sc(ir.Int32)))
	common := M("Common", F("Region"), F("Zone"), F("Contact", MsgT("Owner")))
	pref := M("Pref", F("Meta", MsgT("Meta"), NonNull()), F("Common", MsgT("Common"), NonNull(), Embed()), F("Enabled", Sc(ir.Bool)))
	f := file("k9", user, pref, spec, meta, owner, common, tag, priceTag)
	AutoComments(f)
	// Meta and Owner are exported themselves and occur below other exported types through
	// fields named like the type (README: `Metadata Metadata = 1`)
	c := BaseConfig("User", "Pref", "Meta", "Owner")
	// injected attributes of an exported type that also occurs below other exported types, and of one nested path
	c.InjectedFields = map[string][]ir.Injected{
		"Meta": {{Name: "meta_id", Type: "github.com/hashicorp/terraform-plugin-framework/types.StringType", Computed: true},
			{Name: "meta_rank", Type: "github.com/hashicorp/terraform-plugin-framework/types.Int64Type", Optional: true},
			{Name: "meta_flag", Type: "github.com/hashicorp/terraform-plugin-framework/types.BoolType", Optional: true, Computed: true}},
		"Owner": {{Name: "owner_rank", Type: "github.com/hashicorp/terraform-plugin-framework/types.Int64Type", Optional: true},
			// only name and type: none of required / optional / computed
			{Name: "owner_note", Type: "github.com/hashicorp/terraform-plugin-framework/types.StringType"}},
		"User.Spec.Meta": {{Name: "spec_meta_note", Type: "github.com/hashicorp/terraform-plugin-framework/types.StringType", Optional: true, Computed: true, PlanModifiers: []string{USFU}}},
	}
	// a custom type addressed by full path at one of several occurrences of the message type
	c.CustomTypes = map[string]string{"User.Backup.Name": "verif/types.Joined",
		// a message-typed custom field all of whose children are excluded (the hooks own the field; the exclusions are moot)
		"User.History.Owner": "verif/types.Boxed"}
	// computed fields with and without explicit plan modifiers while UseStateForUnknown is the default
	c.UseStateForUnknown = true
	c.ComputedFields = []string{"User.Title", "Meta.Revision", "User.Spec.Level"}
	c.PlanModifiers = map[string][]string{"User.Title": {PM("t1"), PM("t2")}, "User.Spec.Level": {PM("l1"), USFU, PM("l2")}}
	// comments of selected messages that look like Go comment syntax
	for _, m := range f.Messages {
		switch m.Name {
		case "User":
			m.Comment, m.HasComment = " /* DEPRECATED: use UserV2 */ User is kept for compatibility\n", true
		case "Meta":
			m.Comment, m.HasComment = " // Meta closes nothing */ and opens /* nothing\n", true
		}
	}
	// a path-specific exclusion below a nested occurrence of an exported type
	c.ExcludeFields = []string{"Pref.Meta.Labels", "User.Spec.Meta.Owner.Email", "User.History.Owner.Login", "User.History.Owner.Email", "Tag.Label"}
	// an explicit empty list under a full path switches off what the Message.Field key configures
	c.Validators = map[string][]string{"Meta.Revision": {V("rev")}, "User.Meta.Revision": {}, "Owner.Login": {V("teleport.dev/login"), V("login.v2")}, "User.Backup.Owner.Login": {}}
	// (on a field that is not computed: whether an explicit empty list also switches the UseStateForUnknown default off is not documented)
	c.PlanModifiers["Owner.Login"] = []string{PM("login-pm")}
	// computed by full path, plan modifiers by Message.Field: the explicit list wins over the UseStateForUnknown default
	c.ComputedFields = append(c.ComputedFields, "User.Backup.Expires", "Pref.Meta.Name")
	c.PlanModifiers["Meta.Expires"] = []string{PM("expires-pm")}
	c.PlanModifiers["Meta.Name"] = []string{PM("name.pm/v1"), PM("name-second")}
	c.PlanModifiers["User.Backup.Owner.Login"] = []string{}
	return &Entry{Name: "k9", File: f, Cfg: c, Tags: []string{"multi-path", "multi-root", "embed", "time"}}
}

// K10: several roots, unrelated messages, a dependency file (same Go package
// or another one).
func K10(depOtherPkg bool) *Entry {
	name := "k10a"
	if depOtherPkg {
		name = "k10b"
	}
	dep := &ir.File{Name: name + "dep.proto", Package: name + "dep",
		Messages: []*ir.Message{M("Shared", F("SharedName"), F("SharedCount", Sc(ir.Int32)), F("SharedTags", Rep())), M("Unrelated", F("Foo"))},
		Enums:    []*ir.Enum{{Name: "Color", Values: []ir.EnumValue{{"RED", 0}, {"GREEN", 1}, {"BLUE", 5}}}}}
	if depOtherPkg {
		dep.GoPackage = "vw/cases/" + name + "/" + name + "dep"
		// a message with the same simple name (and a same-named field) as one of the generated file
		dep.Messages = append(dep.Messages, M("Gamma", F("Note", Cmt(" Note of the dependency's Gamma,\n which is another message\n")), F("Weight", Sc(ir.Double))))
	} else {
		dep.Package = name
	}
	a := M("Alpha", F("Name"), F("Shared", DepMsg("Shared")), F("SharedValue", DepMsg("Shared"), NonNull()), F("SharedList", DepMsg("Shared"), Rep()),
		F("SharedDict", DepMsg("Shared"), MapOf()), F("Tint", DepEnum("Color")), F("Tints", DepEnum("Color"), Rep()), F("Local", MsgT("Gamma")))
	if depOtherPkg {
		a.Fields = append(a.Fields, F("Foreign", DepMsg("Gamma")))
		a.Fields[len(a.Fields)-1].Number = int32(len(a.Fields))
	}
	b := M("Beta", F("Title"), F("Gamma", MsgT("Gamma"), NonNull()), F("Count", Sc(ir.Uint64)))
	g := M("Gamma", F("Note"), F("Level", Sc(ir.Sint32)))
	f := file(name, a, b, g, M("Bystander", F("Ignored"), F("AlsoIgnored", TS())))
	f.Dep = dep
	AutoComments(f)
	AutoComments(dep)
	return &Entry{Name: name, File: f, Cfg: BaseConfig("Alpha", "Beta"), Tags: []string{"multi-root", "dep-file", fmt.Sprintf("dep-other-pkg=%v", depOtherPkg), "unrelated-msg"}}
}

// K11: isolated exotic shapes, one per case.
func K11(which int) *Entry {
	switch which {
	case 0:
		f := file("k11a", M("BlobMap", F("Name"), F("Blobs", Sc(ir.Bytes), MapOf())))
		AutoComments(f)
		return &Entry{Name: "k11a", File: f, Cfg: BaseConfig("BlobMap"), Tags: []string{"map<string,bytes>"}}
	case 1:
		f := file("k11b", M("VoidList", F("Name"), F("Voids", MsgT("Void"), Rep())), M("Void"))
		AutoComments(f)
		return &Entry{Name: "k11b", File: f, Cfg: BaseConfig("VoidList"), Tags: []string{"repeated-empty-msg"}}
	case 2:
		f := file("k11c", M("VoidMap", F("Name"), F("Voids", MsgT("Void"), MapOf())), M("Void"))
		AutoComments(f)
		return &Entry{Name: "k11c", File: f, Cfg: BaseConfig("VoidMap"), Tags: []string{"map-empty-msg"}}
	case 4:
		// by-value durations as oneof branches
		m := WithOneofs(M("SpanPick", F("Name"), F("Text", In(0)), F("SpanInt", StdDurInt(), In(0)), F("SpanCast", Sc(ir.Int64), Cast("Duration"), In(0)),
			// branches that sort before and after the duration branches (the converters visit fields in sorted order)
			F("Early", Sc(ir.Int64), In(0)), F("Zulu", In(0))), "Pick")
		f := file("k11e", m)
		AutoComments(f)
		return &Entry{Name: "k11e", File: f, Cfg: BaseConfig("SpanPick"), Tags: []string{"oneof-by-value-duration"}}
	case 5:
		// custom-type child of a nullable embedded message
		part := M("Part", F("PartName"), F("PartBlob", Sc(ir.Bytes), Custom("CustomA")), F("PartJoined"))
		f := file("k11f", M("Box", F("Name"), F("Part", MsgT("Part"), Embed())), part)
		AutoComments(f)
		c := BaseConfig("Box")
		c.CustomTypes = map[string]string{"Box.PartJoined": "verif/types.Joined"}
		return &Entry{Name: "k11f", File: f, Cfg: c, Tags: []string{"custom-in-embed?"}}
	default:
		// oneof inside an embedded message
		inner := WithOneofs(M("Inner", F("InnerName"), F("Left", In(0)), F("Right", Sc(ir.Int64), In(0)), F("Round", Sc(ir.Bool), In(1)), F("Square", In(1)), F("Flat", Sc(ir.Double), In(2)), F("Deep", In(2))), "Side", "Shape", "Relief")
		f := file("k11d", M("Host", F("Name"), F("Inner", MsgT("Inner"), NonNull(), Embed())), inner)
		AutoComments(f)
		return &Entry{Name: "k11d", File: f, Cfg: BaseConfig("Host"), Tags: []string{"oneof-in-embed"}}
	}
}

// K18 is the descriptor of the C18 fault enumeration: messages reachable only through
// a map value, through a list of messages holding a map, shared by two exported types,
// and an exported type that reaches none of them.
func K18() *Entry {
	m := M("OnlyInMap", F("Label"), F("Count", Sc(ir.Int32)))
	m2 := M("DeepInMap", F("Note"))
	w := M("Wrapper", F("Title"), F("ByKey", MsgT("DeepInMap"), MapOf(), NonNull()))
	shared := M("SharedPart", F("SharedName"), F("Inner", MsgT("SharedInner")))
	inner := M("SharedInner", F("Leaf"))
	a := M("Aroot", F("Name"), F("Items", MsgT("OnlyInMap"), MapOf()), F("Part", MsgT("SharedPart")))
	b := M("Broot", F("Name"), F("Wraps", MsgT("Wrapper"), Rep()), F("Part", MsgT("SharedPart"), NonNull()), F("Parts", MsgT("SharedPart"), Rep()))
	c := M("Croot", F("Name"), F("Level", Sc(ir.Int64)))
	f := file("k18", a, b, c, w, m, m2, shared, inner)
	AutoComments(f)
	return &Entry{Name: "k18", File: f, Cfg: BaseConfig("Aroot", "Broot", "Croot"), Tags: []string{"map-only-reachability", "shared-message", "multi-root"}}
}

// K12: a file without a proto package (go_package names the Go package), with enums,
// nested messages, a oneof and a map.
func K12() *Entry {
	m := WithOneofs(M("Bare", F("Name"), F("Kind", EnumT("Mode")), F("Sub", MsgT("BareSub")), F("Subs", MsgT("BareSub"), Rep()), F("ByKey", MsgT("BareSub"), MapOf(), NonNull()),
		F("Left", In(0)), F("Right", MsgT("BareSub"), In(0)), F("When", TS(), Null())), "Side")
	// a user message called like a well-known type, in a file without a package (its full name is `.Timestamp`)
	m.Fields = append(m.Fields, F("Stamp", MsgT("Timestamp")), F("Stamps", MsgT("Timestamp"), Rep()))
	for i, fl := range m.Fields {
		fl.Number = int32(i + 1)
	}
	f := &ir.File{Name: "k12.proto", Package: "", GoPackage: "k12bare", Messages: []*ir.Message{m, M("BareSub", F("Note"), F("Level", Sc(ir.Int32))),
		M("Timestamp", F("Zone"), F("Epoch", Sc(ir.Int64)))}}
	f.Enums = []*ir.Enum{modeEnum()}
	AutoComments(f)
	// a very long comment line and one with every kind of quote
	m.Fields[0].Comment = " Name " + strings.Repeat("very long line ", 400) + "end\n"
	m.Fields[1].Comment = " Kind `backticks` \"double\" 'single' \\backslash\\ \t tab \u00e9 %d %s {{template}} $var\n"
	return &Entry{Name: "k12", File: f, Cfg: BaseConfig("Bare"), Tags: []string{"no-proto-package", "long-comment"}}
}

// K13: per-field Terraform type overrides (schema_types) on singular string / int64 / bool
// fields: at the root, in a nested message keyed by path and by Message.Field, in a oneof.
func K13() *Entry {
	part := M("AltPart", F("PartLabel"), F("PartCount", Sc(ir.Int64)), F("PartPlain"))
	m := WithOneofs(M("AltHost", F("Label"), F("Count", Sc(ir.Int64)), F("Flag", Sc(ir.Bool)), F("Plain"), F("Signed", Sc(ir.Sint64)),
		F("Part", MsgT("AltPart")), F("Parts", MsgT("AltPart"), Rep()), F("Other", MsgT("AltPart"), NonNull()),
		F("PickText", In(0)), F("PickCount", Sc(ir.Int64), In(0))), "Pick")
	f := file("k13", m, part)
	AutoComments(f)
	c := BaseConfig("AltHost")
	c.SchemaTypes = map[string]ir.SchemaType{
		"AltHost.Label":          AltType("string"),
		"AltHost.Count":          AltType("int64"),
		"AltHost.Flag":           AltType("bool"),
		"AltHost.Signed":         AltType("int64"),
		"AltHost.Part.PartLabel": AltType("string"), // this occurrence only
		"AltPart.PartCount":      AltType("int64"),  // every occurrence
		"AltHost.PickText":       AltType("string"),
		"AltPart.PartPlain":      AltType("string"), // every occurrence, except the one that is a custom type
	}
	// the same field addressed by schema_types (Message.Field) and by custom_types (full path): custom-type hooks own it there
	c.CustomTypes = map[string]string{"AltHost.Other.PartPlain": "verif/types.Joined"}
	c.ComputedFields = []string{"AltHost.Label"}
	c.RequiredFields = []string{"AltHost.Count"}
	return &Entry{Name: "k13", File: f, Cfg: c, Tags: []string{"schema_types"}}
}

// K14: deep nesting (six levels, alternating list / map / by-value / nullable), the same leaf
// message at several depths, a oneof and a nullable embed at the bottom.
func K14() *Entry {
	f6 := WithOneofs(M("LevelSix", F("SixName"), F("SixTags", Rep()), F("SixText", In(0)), F("SixCount", Sc(ir.Int64), In(0)), F("SixPart", MsgT("SixPart"), Embed())), "SixPick")
	part := M("SixPart", F("PartNote"), F("PartWhen", TS(), Null()))
	f5 := M("LevelFive", F("FiveName"), F("Sixes", MsgT("LevelSix"), MapOf(), NonNull()), F("Six", MsgT("LevelSix")))
	f4 := M("LevelFour", F("FourName"), F("Fives", MsgT("LevelFive"), Rep()))
	f3 := M("LevelThree", F("ThreeName"), F("Four", MsgT("LevelFour"), NonNull()), F("ShortCut", MsgT("LevelSix")))
	f2 := M("LevelTwo", F("TwoName"), F("Threes", MsgT("LevelThree"), MapOf()))
	f1 := M("LevelOne", F("OneName"), F("Twos", MsgT("LevelTwo"), Rep(), NonNull()), F("Two", MsgT("LevelTwo")))
	f := file("k14", f1, f2, f3, f4, f5, f6, part)
	AutoComments(f)
	c := BaseConfig("LevelOne")
	c.Sort = false
	c.SortSet = true
	c.RequiredFields = []string{"LevelOne.Twos.Threes.Four.Fives.Sixes.SixName"}
	c.ExcludeFields = []string{"LevelOne.Two.Threes.ShortCut"}
	c.NameOverrides = map[string]string{"LevelSix.SixTags": "six_labels"}
	return &Entry{Name: "k14", File: f, Cfg: c, Tags: []string{"depth6", "embed?", "oneof-nested"}}
}

// K15: selected messages whose shape resembles something the generator treats specially:
// an `...Entry` message with fields key / value (like a synthetic map entry, but a real message),
// the same message used as a list element and as a map value, well-known-looking names.
func K15() *Entry {
	entry := M("LabelEntry", F("key"), F("value"))
	pair := M("PairEntry", F("key"), F("value", MsgT("LabelEntry")))
	any := M("Any", F("TypeUrl"), F("Payload", Sc(ir.Bytes)))
	// (the maps `Label` and `Pair` have entry descriptors called like the selected messages LabelEntry / PairEntry: D13)
	holder := M("Shelf", F("Title"), F("Labels", MapOf()), F("Label", MapOf()), F("Pair", Sc(ir.Int64), MapOf()), F("Entries", MsgT("LabelEntry"), Rep()), F("ByName", MsgT("PairEntry"), MapOf()), F("Extra", MsgT("Any")),
		// singular message attributes named like the fields of a map entry, next to maps of the same message
		F("value", MsgT("PairEntry")), F("key", MsgT("PairEntry"), NonNull()), F("ByKey", MsgT("PairEntry"), MapOf(), NonNull()),
		// ... and next to a map of another message
		F("Widgets", MsgT("Any"), MapOf()),
		// nested messages all of whose fields are excluded at that path: nothing is left to convert
		F("Hidden", MsgT("Any")), F("HiddenValue", MsgT("Any"), NonNull()), F("Hiddens", MsgT("Any"), Rep()), F("HiddenValues", MsgT("Any"), Rep(), NonNull()),
		F("HiddenDict", MsgT("Any"), MapOf()), F("HiddenValueDict", MsgT("Any"), MapOf(), NonNull()),
		// ... as a oneof branch and as an embedded message
		F("PickHidden", MsgT("Any"), In(0)), F("PickText", In(0)), F("Tail", MsgT("Tail"), Embed()), F("TailValue", MsgT("TailValue"), Embed(), NonNull()))
	WithOneofs(holder, "Pick")
	tail, tailv := M("Tail", F("TailNote"), F("TailCount", Sc(ir.Int64))), M("TailValue", F("TailValueNote"))
	// a selected type all of whose declared fields are excluded: its schema consists of injected fields
	gamma := M("Gamma", F("Secret"), F("Token"))
	f := file("k15", holder, entry, pair, any, gamma, tail, tailv)
	AutoComments(f)
	c := BaseConfig("Shelf", "LabelEntry", "PairEntry", "Any", "Gamma")
	c.ExcludeFields = []string{"Gamma.Secret", "Gamma.Token", "Shelf.Entries.key", "Shelf.Entries.value"}
	c.ExcludeFields = append(c.ExcludeFields, "Shelf.TailNote", "Shelf.TailCount", "Shelf.TailValueNote")
	for _, n := range []string{"Hidden", "HiddenValue", "Hiddens", "HiddenValues", "HiddenDict", "HiddenValueDict", "PickHidden"} {
		c.ExcludeFields = append(c.ExcludeFields, "Shelf."+n+".TypeUrl", "Shelf."+n+".Payload")
	}
	// a repeated message field handled by custom-type hooks, its children excluded
	c.CustomTypes = map[string]string{"Shelf.Entries": "verif/types.Boxed"}
	c.Suffixes = map[string]string{"verif/types.Boxed": "X509Entries"}
	c.InjectedFields = map[string][]ir.Injected{"Gamma": {{Name: "injected_id", Type: "github.com/hashicorp/terraform-plugin-framework/types.StringType", Computed: true}}}
	return &Entry{Name: "k15", File: f, Cfg: c, Tags: []string{"entry-shaped-message", "all-fields-excluded"}}
}

// K16: names that differ by a trailing number, a digit run of another length, or a number followed
// by letters (orderings other than the plain string order are easy to get wrong for them).
func K16() *Entry {
	body := func(name string) *ir.Message {
		// (lower_snake so that a digit inside the name keeps the attribute name unambiguous)
		return M(name, F("addr2"), F("addr10", Sc(ir.Int64)), F("addr1_x"), F("addr9", Sc(ir.Bool)), F("addr01"), F("addr1"), F("addr"), F("addr1_spec", Rep()), F("addr100", Sc(ir.Int64)),
			F("Port2"), F("Port10", Sc(ir.Int64)), F("Port"))
	}
	f := file("k16", body("RoleV2"), body("RoleV10"), body("RoleV1Spec"), body("RoleV9"), body("Role"), body("RoleV01"), body("RoleV1"), body("RoleV100"))
	AutoComments(f)
	return &Entry{Name: "k16", File: f, Cfg: BaseConfig("RoleV2", "RoleV10", "RoleV1Spec", "RoleV9", "Role", "RoleV01", "RoleV1", "RoleV100"), Tags: []string{"numbered-names"}}
}

// Curated returns the curated corpus. known=true adds the isolated shapes that
// are known not to compile on the pinned tree (D1, D2).
func Curated() []*Entry {
	return []*Entry{K1(), K2(), K3(), K4(), K5(), K6(0), K6(1), K6(2), K6(3), K6(4), K6(5), K7(), K7X(), K8(), K9(), K10(false), K10(true), K12(), K13(), K14(), K15()}
}

// Exotic returns the isolated shapes (K11).
func Exotic() []*Entry { return []*Entry{K11(0), K11(1), K11(2), K11(3), K11(4), K11(5)} }

// Package descgen turns the harness IR into CodeGeneratorRequests, YAML files and
// parameter strings, and holds the curated and random corpora.
package descgen

import (
	"bytes"
	"compress/gzip"
	"fmt"
	"io/ioutil"
	"strings"

	"github.com/gogo/protobuf/gogoproto"
	"github.com/gogo/protobuf/proto"
	"github.com/gogo/protobuf/protoc-gen-gogo/descriptor"
	"github.com/gogo/protobuf/protoc-gen-gogo/generator"
	plugin "github.com/gogo/protobuf/protoc-gen-gogo/plugin"
	_ "github.com/gogo/protobuf/types"

	"verif/internal/ir"
)

// registryFile returns a copy of a descriptor registered with gogo's proto registry.
func registryFile(name string) *descriptor.FileDescriptorProto {
	gz := proto.FileDescriptor(name)
	if gz == nil {
		panic("descriptor not registered: " + name)
	}
	r, err := gzip.NewReader(bytes.NewReader(gz))
	if err != nil {
		panic(err)
	}
	b, err := ioutil.ReadAll(r)
	if err != nil {
		panic(err)
	}
	fd := &descriptor.FileDescriptorProto{}
	if err := proto.Unmarshal(b, fd); err != nil {
		panic(err)
	}
	return fd
}

// WellKnown returns the dependency descriptors every request carries, in
// topological order, named the way protoc names them with the usual -I flags.
func WellKnown() []*descriptor.FileDescriptorProto {
	d := registryFile("descriptor.proto")
	d.Name = proto.String("google/protobuf/descriptor.proto")
	// (gogo users map descriptor.proto to gogo's own descriptor package)
	if d.Options == nil {
		d.Options = &descriptor.FileOptions{}
	}
	d.Options.GoPackage = proto.String("github.com/gogo/protobuf/protoc-gen-gogo/descriptor")
	g := registryFile("gogo.proto")
	g.Name = proto.String("gogoproto/gogo.proto")
	g.Dependency = []string{"google/protobuf/descriptor.proto"}
	ts := registryFile("google/protobuf/timestamp.proto")
	du := registryFile("google/protobuf/duration.proto")
	for _, f := range []*descriptor.FileDescriptorProto{ts, du} {
		if f.Options == nil {
			f.Options = &descriptor.FileOptions{}
		}
		f.Options.GoPackage = proto.String("github.com/gogo/protobuf/types")
	}
	return []*descriptor.FileDescriptorProto{d, g, ts, du}
}

var scalarProto = map[ir.Scalar]descriptor.FieldDescriptorProto_Type{
	ir.Double:   descriptor.FieldDescriptorProto_TYPE_DOUBLE,
	ir.Float:    descriptor.FieldDescriptorProto_TYPE_FLOAT,
	ir.Int32:    descriptor.FieldDescriptorProto_TYPE_INT32,
	ir.Int64:    descriptor.FieldDescriptorProto_TYPE_INT64,
	ir.Uint32:   descriptor.FieldDescriptorProto_TYPE_UINT32,
	ir.Uint64:   descriptor.FieldDescriptorProto_TYPE_UINT64,
	ir.Sint32:   descriptor.FieldDescriptorProto_TYPE_SINT32,
	ir.Sint64:   descriptor.FieldDescriptorProto_TYPE_SINT64,
	ir.Fixed32:  descriptor.FieldDescriptorProto_TYPE_FIXED32,
	ir.Fixed64:  descriptor.FieldDescriptorProto_TYPE_FIXED64,
	ir.Sfixed32: descriptor.FieldDescriptorProto_TYPE_SFIXED32,
	ir.Sfixed64: descriptor.FieldDescriptorProto_TYPE_SFIXED64,
	ir.Bool:     descriptor.FieldDescriptorProto_TYPE_BOOL,
	ir.String:   descriptor.FieldDescriptorProto_TYPE_STRING,
	ir.Bytes:    descriptor.FieldDescriptorProto_TYPE_BYTES,
}

func jsonName(s string) string {
	// protoc's ToJsonName: drop underscores, upper-case the following letter.
	var b strings.Builder
	up := false
	for _, r := range s {
		if r == '_' {
			up = true
			continue
		}
		if up && r >= 'a' && r <= 'z' {
			r -= 'a' - 'A'
		}
		up = false
		b.WriteRune(r)
	}
	return b.String()
}

func setExt(o proto.Message, e *proto.ExtensionDesc, v interface{}) {
	if err := proto.SetExtension(o, e, v); err != nil {
		panic(err)
	}
}

func fieldOptions(f *ir.Field) *descriptor.FieldOptions {
	o := &descriptor.FieldOptions{}
	n := 0
	if f.Nullable != nil {
		setExt(o, gogoproto.E_Nullable, f.Nullable)
		n++
	}
	if f.Embed {
		setExt(o, gogoproto.E_Embed, proto.Bool(true))
		n++
	}
	if f.StdTime {
		setExt(o, gogoproto.E_Stdtime, proto.Bool(true))
		n++
	}
	if f.StdDur {
		setExt(o, gogoproto.E_Stdduration, proto.Bool(true))
		n++
	}
	if f.CastType != "" {
		setExt(o, gogoproto.E_Casttype, proto.String(f.CastType))
		n++
	}
	if f.CustomType != "" {
		setExt(o, gogoproto.E_Customtype, proto.String(f.CustomType))
		n++
	}
	if f.JSONTag != nil {
		setExt(o, gogoproto.E_Jsontag, proto.String(*f.JSONTag))
		n++
	}
	if n == 0 {
		return nil
	}
	return o
}

func typeRef(file *ir.File, name string, dep bool) string {
	pkg := file.Package
	if dep {
		pkg = file.Dep.Package
	}
	if pkg == "" {
		return "." + name
	}
	return "." + pkg + "." + name
}

// elemType fills type and type_name of a (value) field.
func elemType(file *ir.File, f *ir.Field, fd *descriptor.FieldDescriptorProto) {
	switch f.Kind {
	case ir.KScalar:
		t := scalarProto[f.Scalar]
		fd.Type = &t
	case ir.KEnum:
		t := descriptor.FieldDescriptorProto_TYPE_ENUM
		fd.Type = &t
		fd.TypeName = proto.String(typeRef(file, f.Ref, f.RefDep))
	case ir.KMessage:
		t := descriptor.FieldDescriptorProto_TYPE_MESSAGE
		fd.Type = &t
		fd.TypeName = proto.String(typeRef(file, f.Ref, f.RefDep))
	case ir.KTimestamp:
		t := descriptor.FieldDescriptorProto_TYPE_MESSAGE
		fd.Type = &t
		fd.TypeName = proto.String(".google.protobuf.Timestamp")
	case ir.KDuration:
		t := descriptor.FieldDescriptorProto_TYPE_MESSAGE
		fd.Type = &t
		fd.TypeName = proto.String(".google.protobuf.Duration")
	}
}

// BuildFile converts an IR file to a FileDescriptorProto (with SourceCodeInfo
// carrying the leading comments).
func BuildFile(file *ir.File) *descriptor.FileDescriptorProto {
	fd := &descriptor.FileDescriptorProto{
		Name:   proto.String(file.Name),
		Syntax: proto.String("proto3"),
	}
	if file.Package != "" {
		fd.Package = proto.String(file.Package)
	}
	fd.Dependency = []string{"gogoproto/gogo.proto"}
	usesTS, usesDur := false, false
	for _, m := range file.Messages {
		for _, f := range m.Fields {
			if f.Kind == ir.KTimestamp {
				usesTS = true
			}
			if f.Kind == ir.KDuration {
				usesDur = true
			}
		}
	}
	if usesTS {
		fd.Dependency = append(fd.Dependency, "google/protobuf/timestamp.proto")
	}
	if usesDur {
		fd.Dependency = append(fd.Dependency, "google/protobuf/duration.proto")
	}
	if file.ImportsDescriptor {
		fd.Dependency = append(fd.Dependency, "google/protobuf/descriptor.proto")
	}
	if file.Dep != nil && !file.DepUnused {
		fd.Dependency = append(fd.Dependency, file.Dep.Name)
	}
	fd.Options = &descriptor.FileOptions{}
	if file.GoPackage != "" {
		fd.Options.GoPackage = proto.String(file.GoPackage)
	}
	setExt(fd.Options, gogoproto.E_GoprotoGettersAll, proto.Bool(false))

	sci := &descriptor.SourceCodeInfo{}
	for mi, m := range file.Messages {
		dp := &descriptor.DescriptorProto{Name: proto.String(m.Name)}
		if m.HasComment {
			sci.Location = append(sci.Location, &descriptor.SourceCodeInfo_Location{
				Path: []int32{4, int32(mi)}, Span: []int32{int32(mi * 100), 0, int32(mi*100 + 99), 1},
				LeadingComments: proto.String(m.Comment),
			})
		}
		for _, o := range m.Oneofs {
			dp.OneofDecl = append(dp.OneofDecl, &descriptor.OneofDescriptorProto{Name: proto.String(o)})
		}
		for fi, f := range m.Fields {
			p := &descriptor.FieldDescriptorProto{
				Name:     proto.String(f.Name),
				Number:   proto.Int32(f.Number),
				JsonName: proto.String(jsonName(f.Name)),
				Options:  fieldOptions(f),
			}
			lbl := descriptor.FieldDescriptorProto_LABEL_OPTIONAL
			if f.Card != ir.Single {
				lbl = descriptor.FieldDescriptorProto_LABEL_REPEATED
			}
			p.Label = &lbl
			if f.Oneof >= 0 {
				p.OneofIndex = proto.Int32(int32(f.Oneof))
			}
			if f.Card == ir.Map {
				entry := generator.CamelCase(f.Name) + "Entry"
				kt := scalarProto[f.MapKey]
				ol := descriptor.FieldDescriptorProto_LABEL_OPTIONAL
				kf := &descriptor.FieldDescriptorProto{Name: proto.String("key"), Number: proto.Int32(1), Label: &ol, Type: &kt, JsonName: proto.String("key")}
				vf := &descriptor.FieldDescriptorProto{Name: proto.String("value"), Number: proto.Int32(2), Label: &ol, JsonName: proto.String("value")}
				elemType(file, f, vf)
				dp.NestedType = append(dp.NestedType, &descriptor.DescriptorProto{
					Name:    proto.String(entry),
					Field:   []*descriptor.FieldDescriptorProto{kf, vf},
					Options: &descriptor.MessageOptions{MapEntry: proto.Bool(true)},
				})
				t := descriptor.FieldDescriptorProto_TYPE_MESSAGE
				p.Type = &t
				p.TypeName = proto.String(typeRef(file, m.Name, false) + "." + entry)
			} else {
				elemType(file, f, p)
			}
			dp.Field = append(dp.Field, p)
			if f.HasComment || f.Trailing != "" || len(f.Detached) > 0 {
				loc := &descriptor.SourceCodeInfo_Location{
					Path: []int32{4, int32(mi), 2, int32(fi)}, Span: []int32{int32(mi*100 + fi + 1), 2, 30},
				}
				if f.HasComment {
					loc.LeadingComments = proto.String(f.Comment)
				}
				if f.Trailing != "" {
					loc.TrailingComments = proto.String(f.Trailing)
				}
				loc.LeadingDetachedComments = f.Detached
				sci.Location = append(sci.Location, loc)
			}
		}
		fd.MessageType = append(fd.MessageType, dp)
	}
	for _, e := range file.Enums {
		ep := &descriptor.EnumDescriptorProto{Name: proto.String(e.Name)}
		for _, v := range e.Values {
			ep.Value = append(ep.Value, &descriptor.EnumValueDescriptorProto{Name: proto.String(v.Name), Number: proto.Int32(v.Number)})
		}
		fd.EnumType = append(fd.EnumType, ep)
	}
	fd.SourceCodeInfo = sci
	return fd
}

// Request assembles the CodeGeneratorRequest for a file.
func Request(file *ir.File, param string) *plugin.CodeGeneratorRequest {
	req := &plugin.CodeGeneratorRequest{FileToGenerate: []string{file.Name}}
	if param != "" {
		req.Parameter = proto.String(param)
	}
	req.ProtoFile = append(req.ProtoFile, WellKnown()...)
	if file.Dep != nil {
		req.ProtoFile = append(req.ProtoFile, BuildFile(file.Dep))
	}
	req.ProtoFile = append(req.ProtoFile, BuildFile(file))
	return req
}

// GoPackageOf returns (import path or "", package name) the way gogo derives them
// for a file generated without import_path/M parameters.
func GoPackageOf(file *ir.File) (importPath, name string) {
	if file.GoPackage != "" {
		gp := file.GoPackage
		if i := strings.Index(gp, ";"); i >= 0 {
			return gp[:i], gp[i+1:]
		}
		if i := strings.LastIndex(gp, "/"); i >= 0 {
			return gp, cleanPkgName(gp[i+1:])
		}
		return gp, cleanPkgName(gp)
	}
	if file.Package != "" {
		return "", strings.Map(func(r rune) rune {
			if r == '.' {
				return '_'
			}
			return r
		}, file.Package)
	}
	base := strings.TrimSuffix(file.Name, ".proto")
	return "", strings.Map(func(r rune) rune {
		if r == '.' || r == '-' || r == '/' {
			return '_'
		}
		return r
	}, base)
}

// MarshalRequest serialises a request.
func MarshalRequest(req *plugin.CodeGeneratorRequest) []byte {
	b, err := proto.Marshal(req)
	if err != nil {
		panic(fmt.Sprintf("marshal request: %v", err))
	}
	return b
}

// cleanPkgName turns the last element of an import path into a Go package name the way gogo does:
// characters that cannot be part of an identifier become underscores, a leading digit gets one in front.
func cleanPkgName(n string) string {
	n = strings.Map(func(r rune) rune {
		if r == '_' || r >= 'a' && r <= 'z' || r >= 'A' && r <= 'Z' || r >= '0' && r <= '9' {
			return r
		}
		return '_'
	}, n)
	if n != "" && n[0] >= '0' && n[0] <= '9' {
		n = "_" + n
	}
	return n
}

package descgen

import (
	"fmt"
	"math/rand"
	"sort"
	"strings"

	"verif/internal/ir"
)

// RandOpt steers the random corpus.
type RandOpt struct {
	// Plain: no per-field options in the configuration (for differential bases).
	Plain bool
	// NoCustom: no custom-type fields.
	NoCustom bool
	// MultiPath: reuse message types at several paths (C11).
	MultiPath bool
	// Dep: add a dependency file.
	Dep bool
	// NoTemporal: no time / duration fields (C18 inserts the only one).
	NoTemporal bool
}

var wordsA = []string{"Alpha", "Bravo", "Cargo", "Delta", "Ember", "Flint", "Grove", "Harbor", "Ivory", "Jolly", "Kite", "Lumen", "Maple", "Noble", "Opal", "Pilot",
	"Quill", "Raven", "Solar", "Tidal", "Umbra", "Vivid", "Willow", "Xenon", "Yonder", "Zephyr"}
var wordsB = []string{"Ax", "Bay", "Cove", "Dune", "Edge", "Fern", "Gate", "Hill", "Isle", "Jade", "Knot", "Lake", "Mist", "Nest", "Oak", "Peak", "Quay", "Reef",
	"Spur", "Tarn", "Urn", "Vale", "Wood", "Yard", "Zone"}

type randGen struct {
	r     *rand.Rand
	nameN int
	file  *ir.File
	opt   RandOpt
}

func (g *randGen) name() string {
	i := g.nameN
	g.nameN++
	a := wordsA[i%len(wordsA)]
	b := wordsB[(i/len(wordsA)+i*7)%len(wordsB)]
	n := a + b
	if i >= len(wordsA)*len(wordsB) {
		n += "Extra"
	}
	switch g.r.Intn(12) {
	case 10:
		return strings.ToLower(a) + fmt.Sprint(g.r.Intn(9)+1) + "_" + strings.ToLower(b) // lower_snake, digits before the underscore
	case 11:
		return strings.ToLower(a[:1]) + "_" + strings.ToLower(b) + "_" + strings.ToLower(a[1:2]) // single-letter segments
	case 0:
		return strings.ToLower(a) + "_" + strings.ToLower(b) // lower_snake
	case 1:
		return n + fmt.Sprint(g.r.Intn(9)+1) // digits only at the end
	}
	return n
}

func (g *randGen) scalar() ir.Scalar { return allScalars[g.r.Intn(len(allScalars))] }

// leafField draws a primitive-kind field (scalar, enum, time, duration, cast).
func (g *randGen) leafField(allowColl bool) *ir.Field {
	f := F(g.name())
	k := g.r.Intn(20)
	if g.opt.NoTemporal && k >= 11 && k < 17 {
		k = g.r.Intn(11)
	}
	switch {
	case k < 9:
		Sc(g.scalar())(f)
	case k < 11:
		EnumT("Mode")(f)
	case k < 13:
		TS()(f)
		if g.r.Intn(2) == 0 {
			NonNull()(f)
		}
	case k < 15:
		Dur()(f)
		if g.r.Intn(2) == 0 {
			NonNull()(f)
		}
	case k < 16:
		StdDurInt()(f)
	case k < 17:
		Sc(ir.Int64)(f)
		Cast("Duration")(f)
	default:
		casts := []struct {
			s ir.Scalar
			t string
		}{{ir.String, "CastString"}, {ir.Bytes, "CastBytes"}, {ir.Bool, "CastBool"}, {ir.Int32, "CastInt32"}, {ir.Int64, "CastInt64"}, {ir.Float, "CastFloat"}, {ir.Int64, "BillingDuration"}, {ir.Int64, "DurationSeconds"},
			{ir.String, "verif/rt/tfx.XString"}, {ir.Int64, "verif/rt/tfx.XInt64"}}
		c := casts[g.r.Intn(len(casts))]
		Sc(c.s)(f)
		Cast(c.t)(f)
	}
	if allowColl {
		switch g.r.Intn(6) {
		case 0:
			Rep()(f)
		case 1:
			if f.CastType == "" && !(f.StdDur && f.Kind == ir.KScalar) {
				MapOf()(f)
			}
		}
	}
	return f
}

// Random builds the idx-th random entry for a seed.
func Random(seed int64, idx int, opt RandOpt) *Entry {
	r := rand.New(rand.NewSource(seed*1000003 + int64(idx)*7919 + 17))
	g := &randGen{r: r, opt: opt}
	name := fmt.Sprintf("r%d", idx)
	f := &ir.File{Name: name + ".proto", Package: name}
	g.file = f
	switch r.Intn(4) {
	case 0:
		f.GoPackage = name + "pkg"
	case 1:
		f.GoPackage = "example.com/gen/" + name + ";" + name + "types"
	}
	f.Enums = []*ir.Enum{modeEnum()}
	nm := 2 + r.Intn(5)
	msgNames := make([]string, nm)
	for i := range msgNames {
		msgNames[i] = fmt.Sprintf("Msg%s%s", wordsA[(idx+i*3)%len(wordsA)], wordsB[(idx*5+i)%len(wordsB)])
	}
	// special messages
	flatName, voidName := "FlatPart", "VoidPart"
	flat := M(flatName)
	for i := 0; i < 2+r.Intn(3); i++ {
		flat.Fields = append(flat.Fields, g.leafField(false))
	}
	// build messages bottom-up so references go to later (already built) messages
	built := make([]*ir.Message, nm)
	for i := nm - 1; i >= 0; i-- {
		m := &ir.Message{Name: msgNames[i]}
		nf := 2 + r.Intn(7)
		noneof := 0
		if r.Intn(3) == 0 {
			noneof = 1 + r.Intn(2)
			for k := 0; k < noneof; k++ {
				on := fmt.Sprintf("Pick%s", wordsB[(i*3+k)%len(wordsB)])
				if r.Intn(4) == 0 {
					on = fmt.Sprintf("TLS%sID", wordsB[(i*3+k)%len(wordsB)]) // acronyms in a oneof name
				}
				if r.Intn(3) == 0 {
					on = strings.ToLower(fmt.Sprintf("pick_%s", wordsB[(i*3+k)%len(wordsB)]))
				}
				m.Oneofs = append(m.Oneofs, on)
			}
		}
		usedEmbed := map[string]bool{}
		for k := 0; k < nf; k++ {
			var fl *ir.Field
			canRef := i < nm-1
			switch c := r.Intn(20); {
			case c < 11 || !canRef && c < 17:
				fl = g.leafField(true)
			case c < 17:
				ref := msgNames[i+1+r.Intn(nm-1-i)]
				fl = F(g.name(), MsgT(ref))
				switch r.Intn(4) {
				case 0:
					Rep()(fl)
				case 1:
					MapOf()(fl)
				}
				if r.Intn(2) == 0 {
					NonNull()(fl)
				}
			case c < 18:
				// by-value embed of another message (at most once per type)
				if !canRef {
					fl = g.leafField(true)
					break
				}
				ref := msgNames[i+1+r.Intn(nm-1-i)]
				if usedEmbed[ref] || messageHasEmbedOrOneof(built, ref) {
					fl = g.leafField(true)
					break
				}
				usedEmbed[ref] = true
				fl = F(g.name(), MsgT(ref), NonNull(), Embed())
				if r.Intn(2) == 0 {
					EmbedTag("e_" + snake(ref) + ",omitempty")(fl)
				}
			case c < 19:
				// nullable embed of the flat message (primitive children only)
				if usedEmbed[flatName] {
					fl = g.leafField(true)
					break
				}
				usedEmbed[flatName] = true
				fl = F(g.name(), MsgT(flatName), Embed())
			default:
				fl = F(g.name(), MsgT(voidName))
				if r.Intn(2) == 0 {
					NonNull()(fl)
				}
				switch r.Intn(5) {
				case 0:
					Rep()(fl)
				case 1:
					MapOf()(fl)
				}
			}
			if !opt.NoCustom && r.Intn(25) == 0 && !fl.Embed {
				// custom type by proto option
				*fl = *F(fl.Name, Sc(ir.Bytes), Custom("CustomA"))
				if r.Intn(2) == 0 {
					NonNull()(fl)
				}
			}
			// json tags
			if !fl.Embed {
				switch r.Intn(8) {
				case 0:
					JSON("t_" + snake(fl.Name))(fl)
				case 1:
					JSON("t_" + snake(fl.Name) + ",omitempty")(fl)
				case 2:
					JSON("-")(fl)
				case 3:
					// taken verbatim: camelCase
					JSON("camel" + strings.ReplaceAll(strings.Title(strings.ReplaceAll(fl.Name, "_", " ")), " ", "") + ",omitempty")(fl)
				case 4:
					// options without a name: the attribute keeps its snake_case name
					JSON([]string{",omitempty", ",string", ",omitempty,string"}[len(fl.Name)%3])(fl)
				}
			}
			m.Fields = append(m.Fields, fl)
		}
		// oneof branches
		for k := 0; k < noneof; k++ {
			nb := 2 + r.Intn(3)
			for b := 0; b < nb; b++ {
				var fl *ir.Field
				switch c := r.Intn(10); {
				case c < 6:
					fl = g.leafField(false)
					if fl.Kind == ir.KTimestamp || fl.Kind == ir.KDuration {
						fl.Nullable = nil
					}
				case c < 9 && i < nm-1:
					fl = F(g.name(), MsgT(msgNames[i+1+r.Intn(nm-1-i)]))
				default:
					fl = F(g.name(), MsgT(voidName))
				}
				fl.Oneof = k
				m.Fields = append(m.Fields, fl)
			}
		}
		r.Shuffle(len(m.Fields), func(a, b int) { m.Fields[a], m.Fields[b] = m.Fields[b], m.Fields[a] })
		for k, fl := range m.Fields {
			fl.Number = int32(k + 1)
		}
		built[i] = m
	}
	f.Messages = append(built, flat, M(voidName))
	// the declaration order of the messages is free (a nested type may be declared before its user)
	if r.Intn(2) == 0 {
		r.Shuffle(len(f.Messages), func(a, b int) { f.Messages[a], f.Messages[b] = f.Messages[b], f.Messages[a] })
	}
	if opt.MultiPath && nm >= 3 {
		// make sure the last message occurs at several paths of the first root
		last := msgNames[nm-1]
		root := built[0]
		root.Fields = append(root.Fields, F(g.name(), MsgT(last)), F(g.name(), MsgT(last), Rep()), F(g.name(), MsgT(last), MapOf(), NonNull()))
		for k, fl := range root.Fields {
			fl.Number = int32(k + 1)
		}
	}
	// comments
	for _, m := range f.Messages {
		if r.Intn(4) != 0 {
			m.Comment, m.HasComment = randComment(r, m.Name), true
		}
		for _, fl := range m.Fields {
			if r.Intn(5) != 0 {
				fl.Comment, fl.HasComment = randComment(r, fl.Name), true
			}
			if r.Intn(5) == 0 {
				// a trailing comment (with or without a leading one) never is the description
				Trail(" trailing remark on " + fl.Name + "\n")(fl)
			}
		}
	}
	// configuration
	c := BaseConfig(msgNames[0])
	if nm > 2 && r.Intn(2) == 0 {
		c.Types = append(c.Types, msgNames[1+r.Intn(nm-1)])
	}
	c.Sort = r.Intn(2) == 0
	c.SortSet = true
	switch r.Intn(4) {
	case 0:
		c.TimeType, c.DurationType = TimeUnqualified(r.Intn(2) == 0), DurUnqualified(r.Intn(2) == 0)
	case 1:
		c.TimeType, c.DurationType = TimeQualified(false), DurQualified(true)
	}
	if !opt.Plain {
		randFieldOptions(r, f, c)
	}
	return &Entry{Name: name, File: f, Cfg: c, Tags: []string{"random"}}
}

func messageHasEmbedOrOneof(built []*ir.Message, name string) bool {
	for _, m := range built {
		if m != nil && m.Name == name {
			if len(m.Oneofs) > 0 || len(m.Fields) == 0 {
				return true
			}
			for _, f := range m.Fields {
				if f.Embed {
					return true
				}
			}
		}
	}
	return false
}

func snake(s string) string {
	var b strings.Builder
	for i, r := range s {
		if r >= 'A' && r <= 'Z' {
			if i > 0 {
				b.WriteByte('_')
			}
			b.WriteRune(r + 32)
		} else {
			b.WriteRune(r)
		}
	}
	return b.String()
}

var commentShapes = []string{
	" %s is a field.\n",
	" %s first line\n second line\n",
	"   %s indented   \n     deeper line   \n",
	" %s with CRLF\r\n next line\r\n",
	"\n\n %s surrounded by blank lines\n\n",
	"%s",
	" %s has \"quotes\" and \\ backslash and `ticks`\n",
	"\t%s tab led\t\n\ttab line\n",
	" %s ünïcode ✓\n",
	" %s trailing spaces    \n",
	" %s names the package to install\n package main\n",
	" func %s() { return } // looks like code\n import \"fmt\"\n",
	" /* DEPRECATED: use %sV2 */ kept for compatibility\n",
	" /* %s opens a block that never closes\n",
	" %s closes a block */ that never opened\n",
	" // %s starts like a line comment\n //go:generate echo\n",
	" %s costs 100%% and %%d is no verb\n",
}

func randComment(r *rand.Rand, name string) string {
	return fmt.Sprintf(commentShapes[r.Intn(len(commentShapes))], name)
}

// occurrence is one field occurrence below a root, with both option keys.
type occurrence struct {
	Path, Key string
	Field     *ir.Field
	Msg       *ir.Message
}

// Occurrences lists every non-embedding field occurrence below the given roots
// (embedded messages flattened: their children are addressed through the
// embedding message's path).
func Occurrences(f *ir.File, roots []string) []occurrence {
	var out []occurrence
	var walk func(m *ir.Message, path string, depth int)
	walk = func(m *ir.Message, path string, depth int) {
		if depth > 8 {
			return
		}
		for _, fl := range m.Fields {
			if fl.Embed {
				walk(f.Msg(fl.Ref, fl.RefDep), path, depth+1)
				continue
			}
			out = append(out, occurrence{Path: path + "." + fl.Name, Key: m.Name + "." + fl.Name, Field: fl, Msg: m})
			if fl.Kind == ir.KMessage && fl.CustomType == "" {
				walk(f.Msg(fl.Ref, fl.RefDep), path+"."+fl.Name, depth+1)
			}
		}
	}
	for _, rn := range roots {
		if m := f.Msg(rn, false); m != nil {
			walk(m, rn, 0)
		}
	}
	return out
}

func randFieldOptions(r *rand.Rand, f *ir.File, c *ir.Config) {
	occ := Occurrences(f, c.Types)
	if len(occ) == 0 {
		return
	}
	key := func(o occurrence) string {
		if r.Intn(2) == 0 {
			return o.Key
		}
		return o.Path
	}
	pickN := func(n int) []occurrence {
		var out []occurrence
		for i := 0; i < n; i++ {
			out = append(out, occ[r.Intn(len(occ))])
		}
		return out
	}
	c.UseStateForUnknown = r.Intn(2) == 0
	for _, o := range pickN(r.Intn(4)) {
		c.RequiredFields = append(c.RequiredFields, key(o))
	}
	for _, o := range pickN(r.Intn(5)) {
		c.ComputedFields = append(c.ComputedFields, key(o))
	}
	for _, o := range pickN(r.Intn(3)) {
		c.SensitiveFields = append(c.SensitiveFields, key(o))
	}
	// exclusions: never a field whose message would be left without fields, never an embed child's only sibling
	excl := map[string]int{}
	for _, o := range pickN(r.Intn(3)) {
		if len(o.Msg.Fields)-excl[o.Msg.Name] <= 2 {
			continue
		}
		excl[o.Msg.Name]++
		c.ExcludeFields = append(c.ExcludeFields, key(o))
	}
	c.NameOverrides = map[string]string{}
	for _, o := range pickN(r.Intn(3)) {
		c.NameOverrides[key(o)] = "o_" + snake(strings.ReplaceAll(o.Field.Name, "_", "")) + "_x"
	}
	c.Validators = map[string][]string{}
	for i, o := range pickN(r.Intn(3)) {
		// (ids with dots and slashes: arguments that look like import paths / version numbers)
		c.Validators[key(o)] = []string{V(fmt.Sprintf("v%da", i)), V(fmt.Sprintf("example.dev/v%d.b", i))}[:1+r.Intn(2)]
	}
	c.PlanModifiers = map[string][]string{}
	for i, o := range pickN(r.Intn(3)) {
		l := []string{PM(fmt.Sprintf("p%d.5", i)), PM(fmt.Sprintf("p%db", i)), USFU}
		c.PlanModifiers[key(o)] = l[:1+r.Intn(3)]
	}
	if r.Intn(2) == 0 {
		c.InjectedFields = map[string][]ir.Injected{}
		// any exported type may carry injected attributes (also one that occurs below another exported type)
		c.InjectedFields[c.Types[r.Intn(len(c.Types))]] = []ir.Injected{{Name: "injected_id", Type: "github.com/hashicorp/terraform-plugin-framework/types.StringType", Computed: true}}
		for _, o := range occ {
			if o.Field.Kind == ir.KMessage && o.Field.CustomType == "" && r.Intn(4) == 0 {
				c.InjectedFields[o.Path] = []ir.Injected{{Name: "injected_extra", Type: "github.com/hashicorp/terraform-plugin-framework/types.Int64Type", Optional: true,
					Validators: []string{V("inj")}}}
				break
			}
		}
	}
	if r.Intn(6) == 0 {
		// custom type through configuration (full path), singular non-message field
		for _, o := range occ {
			// custom-type children of a nullable embed are finding D3b (isolated in K11(5))
			if o.Field.Kind == ir.KScalar && o.Field.Card == ir.Single && o.Field.Oneof < 0 && o.Field.CustomType == "" && o.Msg.Name != "FlatPart" {
				c.CustomTypes = map[string]string{o.Path: "verif/types.Joined"}
				if r.Intn(2) == 0 {
					c.Suffixes = map[string]string{"verif/types.Joined": "Joined"}
				}
				break
			}
		}
	}
	// extras, drawn last so that the draws above stay what they were
	if r.Intn(3) == 0 {
		// an explicit empty validators list under ONE full path of a field configured by its Message.Field key
		var ks []string
		for k := range c.Validators {
			ks = append(ks, k)
		}
		sort.Strings(ks)
	outer:
		for _, k := range ks {
			for _, o := range occ {
				if o.Key == k && o.Path != k {
					if _, dup := c.Validators[o.Path]; !dup {
						c.Validators[o.Path] = []string{}
						break outer
					}
				}
			}
		}
	}
	if c.InjectedFields != nil && r.Intn(2) == 0 {
		// several injected attributes under one key (their order in the list is immaterial)
		var ks []string
		for k := range c.InjectedFields {
			ks = append(ks, k)
		}
		sort.Strings(ks)
		k := ks[0]
		c.InjectedFields[k] = append(c.InjectedFields[k], ir.Injected{Name: "injected_rank", Type: "github.com/hashicorp/terraform-plugin-framework/types.Int64Type", Optional: true},
			ir.Injected{Name: "injected_flag", Type: "github.com/hashicorp/terraform-plugin-framework/types.BoolType", Optional: true, Computed: true})
	}
}

// OptionVariant applies the k-th pseudo-random set of per-field options and a
// comment torture to a (fresh) entry; the entry's own per-field options are dropped.
func OptionVariant(e *Entry, seed int64, k int) *Entry {
	r := rand.New(rand.NewSource(seed*7919 + int64(k)*104729 + 5))
	c := e.Cfg
	c.ExcludeFields, c.RequiredFields, c.ComputedFields, c.SensitiveFields = nil, nil, nil, nil
	c.Validators, c.PlanModifiers, c.InjectedFields = nil, nil, nil
	customs, suff := c.CustomTypes, c.Suffixes
	overrides := c.NameOverrides
	c.NameOverrides = nil
	randFieldOptions(r, e.File, c)
	if customs != nil {
		c.CustomTypes, c.Suffixes = customs, suff
	}
	// the entry's own name overrides stay (acronym names have no documented attribute name without them)
	for k, v := range overrides {
		if c.NameOverrides == nil {
			c.NameOverrides = map[string]string{}
		}
		c.NameOverrides[k] = v
	}
	for _, p := range e.Pinned {
		if !containsStr(c.ExcludeFields, p) {
			c.ExcludeFields = append(c.ExcludeFields, p)
		}
	}
	for _, m := range e.File.Messages {
		for _, fl := range m.Fields {
			switch r.Intn(4) {
			case 0:
				fl.Comment, fl.HasComment = "", false
			case 1, 2:
				fl.Comment, fl.HasComment = randComment(r, fl.Name), true
			}
		}
	}
	Rename(e, fmt.Sprintf("%sv%d", e.Name, k))
	e.Tags = append(e.Tags, "option-variant")
	return e
}

// CuratedByName returns a fresh copy of a curated entry.
func CuratedByName(name string) *Entry {
	for _, e := range append(Curated(), Exotic()...) {
		if e.Name == name {
			return e
		}
	}
	return nil
}

// Rename gives an entry (and its proto file, proto package and dependency) a new
// name, so that several variants of one descriptor can be linked into one binary
// (gogo registers message and enum names globally).
func Rename(e *Entry, name string) *Entry {
	old := e.Name
	e.Name = name
	f := e.File
	f.Name = name + ".proto"
	if f.Package == old {
		f.Package = name
	}
	if f.Dep != nil {
		f.Dep.Name = strings.Replace(f.Dep.Name, old, name, 1)
		f.Dep.Package = strings.Replace(f.Dep.Package, old, name, 1)
		f.Dep.GoPackage = strings.Replace(f.Dep.GoPackage, old, name, -1)
	}
	return e
}

// Permute shuffles the declaration order of the fields of every message and of
// the messages of the file (numbers, names and oneof membership are kept; the
// comments travel with their fields).
func Permute(e *Entry, r *rand.Rand) *Entry {
	f := e.File
	for _, m := range f.Messages {
		r.Shuffle(len(m.Fields), func(i, j int) { m.Fields[i], m.Fields[j] = m.Fields[j], m.Fields[i] })
	}
	r.Shuffle(len(f.Messages), func(i, j int) { f.Messages[i], f.Messages[j] = f.Messages[j], f.Messages[i] })
	e.Tags = append(e.Tags, "permuted")
	return e
}

// Reachable returns the messages of the file reachable from a root (including it).
func Reachable(f *ir.File, root string) []*ir.Message {
	seen := map[string]bool{}
	var out []*ir.Message
	var walk func(name string, dep bool)
	walk = func(name string, dep bool) {
		key := fmt.Sprint(name, dep)
		if seen[key] {
			return
		}
		seen[key] = true
		m := f.Msg(name, dep)
		if m == nil {
			return
		}
		if !dep {
			out = append(out, m)
		}
		for _, fl := range m.Fields {
			if fl.Kind == ir.KMessage && fl.CustomType == "" {
				walk(fl.Ref, fl.RefDep || dep)
			}
		}
	}
	walk(root, false)
	return out
}

func containsStr(l []string, s string) bool {
	for _, x := range l {
		if x == s {
			return true
		}
	}
	return false
}

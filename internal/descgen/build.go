package descgen

import (
	"verif/internal/ir"
)

// FieldOpt customises a field built by F.
type FieldOpt func(*ir.Field)

// F builds a singular string field and applies the options.
func F(name string, opts ...FieldOpt) *ir.Field {
	f := &ir.Field{Name: name, Kind: ir.KScalar, Scalar: ir.String, Oneof: -1, MapKey: ir.String}
	for _, o := range opts {
		o(f)
	}
	return f
}

func Sc(s ir.Scalar) FieldOpt { return func(f *ir.Field) { f.Kind = ir.KScalar; f.Scalar = s } }
func MsgT(name string) FieldOpt {
	return func(f *ir.Field) { f.Kind = ir.KMessage; f.Ref = name }
}
func DepMsg(name string) FieldOpt {
	return func(f *ir.Field) { f.Kind = ir.KMessage; f.Ref = name; f.RefDep = true }
}
func EnumT(name string) FieldOpt { return func(f *ir.Field) { f.Kind = ir.KEnum; f.Ref = name } }
func DepEnum(name string) FieldOpt {
	return func(f *ir.Field) { f.Kind = ir.KEnum; f.Ref = name; f.RefDep = true }
}
func TS() FieldOpt  { return func(f *ir.Field) { f.Kind = ir.KTimestamp; f.StdTime = true } }
func Dur() FieldOpt { return func(f *ir.Field) { f.Kind = ir.KDuration; f.StdDur = true } }

// StdDurInt is the fixture oddity: int64 with stdduration.
func StdDurInt() FieldOpt {
	return func(f *ir.Field) { f.Kind = ir.KScalar; f.Scalar = ir.Int64; f.StdDur = true }
}
func Rep() FieldOpt     { return func(f *ir.Field) { f.Card = ir.Repeated } }
func MapOf() FieldOpt   { return func(f *ir.Field) { f.Card = ir.Map } }
func NonNull() FieldOpt { return func(f *ir.Field) { f.Nullable = ir.B(false) } }
func Null() FieldOpt    { return func(f *ir.Field) { f.Nullable = ir.B(true) } }
func Embed() FieldOpt   { return func(f *ir.Field) { f.Embed = true; f.JSONTag = ir.S("") } }

// EmbedTag is an embedded message field that carries a non-empty json tag (still flattened).
func EmbedTag(tag string) FieldOpt {
	return func(f *ir.Field) { f.Embed = true; f.JSONTag = ir.S(tag) }
}
func Cast(t string) FieldOpt    { return func(f *ir.Field) { f.CastType = t } }
func Custom(t string) FieldOpt  { return func(f *ir.Field) { f.CustomType = t } }
func JSON(t string) FieldOpt    { return func(f *ir.Field) { f.JSONTag = ir.S(t) } }
func In(oneof int) FieldOpt     { return func(f *ir.Field) { f.Oneof = oneof } }
func Cmt(c string) FieldOpt     { return func(f *ir.Field) { f.Comment = c; f.HasComment = true } }
func KeyT(s ir.Scalar) FieldOpt { return func(f *ir.Field) { f.MapKey = s } }

// M builds a message and numbers its fields 1..n.
func M(name string, fields ...*ir.Field) *ir.Message {
	m := &ir.Message{Name: name, Fields: fields}
	for i, f := range fields {
		if f.Number == 0 {
			f.Number = int32(i + 1)
		}
	}
	return m
}

// WithOneofs declares the oneof groups of a message.
func WithOneofs(m *ir.Message, names ...string) *ir.Message {
	m.Oneofs = names
	return m
}

// AutoComments gives every field and message without a comment a standard one.
func AutoComments(f *ir.File) {
	for _, m := range f.Messages {
		if !m.HasComment {
			m.Comment, m.HasComment = " "+m.Name+" message.\n", true
		}
		for _, fl := range m.Fields {
			if !fl.HasComment {
				fl.Comment, fl.HasComment = " "+fl.Name+" is the "+fl.Name+" field.\n", true
			}
		}
	}
}

// TimeQualified etc. are the schema type configurations the harness uses.
func TimeQualified(ctor bool) *ir.SchemaType {
	st := &ir.SchemaType{Type: "verif/rt/tfx.TimeType", ValueType: "verif/rt/tfx.TimeValue", CastToType: "time.Time", CastFromType: "time.Time"}
	if ctor {
		st.TypeConstructor = "verif/rt/tfx.UseRFC3339Time()"
	}
	return st
}
func TimeUnqualified(ctor bool) *ir.SchemaType {
	st := &ir.SchemaType{Type: "TimeType", ValueType: "TimeValue", CastToType: "time.Time", CastFromType: "time.Time"}
	if ctor {
		st.TypeConstructor = "UseRFC3339Time()"
	}
	return st
}
func DurQualified(ctor bool) *ir.SchemaType {
	st := &ir.SchemaType{Type: "verif/rt/tfx.DurationType", ValueType: "verif/rt/tfx.DurationValue", CastToType: "time.Duration", CastFromType: "time.Duration"}
	if ctor {
		st.TypeConstructor = "verif/rt/tfx.UseDuration()"
	}
	return st
}
func DurUnqualified(ctor bool) *ir.SchemaType {
	st := &ir.SchemaType{Type: "DurationType", ValueType: "DurationValue", CastToType: "time.Duration", CastFromType: "time.Duration"}
	if ctor {
		st.TypeConstructor = "UseDuration()"
	}
	return st
}

// BaseConfig returns a configuration that maps every shape of D.
func BaseConfig(types ...string) *ir.Config {
	return &ir.Config{
		Types:              types,
		Sort:               true,
		DurationCustomType: "Duration",
		TimeType:           TimeQualified(true),
		DurationType:       DurQualified(false),
	}
}

// V and PM build validator / plan modifier expressions with an id.
func V(id string) string  { return `verif/rt/tfx.V("` + id + `")` }
func PM(id string) string { return `verif/rt/tfx.PM("` + id + `")` }

// USFU is the framework's UseStateForUnknown plan modifier expression.
const USFU = "github.com/hashicorp/terraform-plugin-framework/tfsdk.UseStateForUnknown()"

// AltType returns the schema_types entry that maps a string / int64 / bool field to
// the harness's alternative Terraform types.
func AltType(kind string) ir.SchemaType {
	name := map[string]string{"string": "AltString", "int64": "AltInt64", "bool": "AltBool"}[kind]
	return ir.SchemaType{Type: "verif/rt/tfx." + name + "Type", ValueType: "verif/rt/tfx." + name, CastToType: kind, CastFromType: kind}
}

// Trail gives a field a trailing comment (and a detached one), which never is the description.
func Trail(c string) FieldOpt {
	return func(f *ir.Field) { f.Trailing = c; f.Detached = []string{" detached above " + f.Name + "\n"} }
}

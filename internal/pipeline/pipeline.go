// Package pipeline builds the plugin under test from /repo's working tree,
// runs it and protoc-gen-gogo as child processes, assembles the scratch Go
// workspace, compiles the generated packages and runs the driver binaries.
package pipeline

import (
	"bytes"
	"context"
	"fmt"
	"io/ioutil"
	"os"
	"os/exec"
	"path/filepath"
	"regexp"
	"runtime"
	"strings"
	"sync"
	"syscall"
	"time"
)

// RepoDir is the tree under test.
var RepoDir = envOr("VERIF_REPO", "/repo")

// VerifDir is the harness root.
var VerifDir = envOr("VERIF_DIR", "/verif")

func envOr(k, d string) string {
	if v := os.Getenv(k); v != "" {
		return v
	}
	return d
}

// Workspace is a scratch directory outside /repo and /verif.
type Workspace struct {
	Dir     string
	GoCache string
	env     []string
	mu      sync.Mutex
	bins    map[string]string
}

// GoEnv returns the environment for go commands.
func (w *Workspace) GoEnv() []string { return w.env }

// New creates a workspace with a private GOCACHE layer hard-linked from the
// warmed base cache.
func New() (*Workspace, error) {
	base := os.Getenv("VERIF_SCRATCH")
	if base == "" {
		base = os.TempDir()
	}
	dir, err := ioutil.TempDir(base, "verif-ws-")
	if err != nil {
		return nil, err
	}
	w := &Workspace{Dir: dir, GoCache: filepath.Join(dir, "gocache"), bins: map[string]string{}}
	gobase := filepath.Join(VerifDir, ".cache", "gobase")
	if st, err := os.Stat(gobase); err == nil && st.IsDir() {
		if out, err := exec.Command("cp", "-al", gobase, w.GoCache).CombinedOutput(); err != nil {
			os.RemoveAll(w.GoCache)
			if out2, err2 := exec.Command("cp", "-a", gobase, w.GoCache).CombinedOutput(); err2 != nil {
				return nil, fmt.Errorf("copy base cache: %v %s %s", err2, out, out2)
			}
		}
	} else if err := os.MkdirAll(w.GoCache, 0o755); err != nil {
		return nil, err
	}
	w.env = append(os.Environ(),
		"GOFLAGS=-mod=mod", "GOPROXY=off", "GOSUMDB=off", "GOTOOLCHAIN=local", "GONOSUMDB=*", "GONOSUMCHECK=1",
		"GOCACHE="+w.GoCache, "CGO_ENABLED=0")
	for _, d := range []string{"bin", "cfg", "out"} {
		os.MkdirAll(filepath.Join(dir, d), 0o755)
	}
	return w, nil
}

// Close removes the workspace.
func (w *Workspace) Close() {
	if os.Getenv("VERIF_KEEP") != "" {
		fmt.Fprintln(os.Stderr, "workspace kept:", w.Dir)
		return
	}
	exec.Command("chmod", "-R", "u+w", w.Dir).Run()
	os.RemoveAll(w.Dir)
}

// Go runs a go command in dir.
func (w *Workspace) Go(dir string, extraEnv []string, args ...string) ([]byte, error) {
	cmd := exec.Command("go", args...)
	cmd.Dir = dir
	cmd.Env = append(append([]string(nil), w.env...), extraEnv...)
	return cmd.CombinedOutput()
}

// BuildPlugin builds the plugin from the current working tree of /repo.
// variant: "" (plain), "race", "cover".
func (w *Workspace) BuildPlugin(variant string) (string, error) {
	w.mu.Lock()
	defer w.mu.Unlock()
	if b, ok := w.bins["plugin-"+variant]; ok {
		return b, nil
	}
	out := filepath.Join(w.Dir, "bin", "protoc-gen-terraform")
	args := []string{"build", "-tags", "verif"}
	var env []string
	switch variant {
	case "race":
		args = append(args, "-race")
		out += "-race"
		env = append(env, "CGO_ENABLED=1")
	case "cover":
		args = append(args, "-cover")
		out += "-cover"
	}
	args = append(args, "-o", out, ".")
	if b, err := w.Go(RepoDir, env, args...); err != nil {
		return "", fmt.Errorf("building plugin (%s) from %s failed: %v\n%s", variant, RepoDir, err, b)
	}
	w.bins["plugin-"+variant] = out
	return out, nil
}

// Gogo returns the protoc-gen-gogo binary (built by setup, else built here).
func (w *Workspace) Gogo() (string, error) {
	w.mu.Lock()
	defer w.mu.Unlock()
	if b, ok := w.bins["gogo"]; ok {
		return b, nil
	}
	pre := filepath.Join(VerifDir, "bin", "protoc-gen-gogo")
	if _, err := os.Stat(pre); err == nil {
		w.bins["gogo"] = pre
		return pre, nil
	}
	out := filepath.Join(w.Dir, "bin", "protoc-gen-gogo")
	if b, err := w.Go(VerifDir, nil, "build", "-o", out, "github.com/gogo/protobuf/protoc-gen-gogo"); err != nil {
		return "", fmt.Errorf("building protoc-gen-gogo failed: %v\n%s", err, b)
	}
	w.bins["gogo"] = out
	return out, nil
}

// RunResult is one observed plugin execution.
type RunResult struct {
	Stdout   []byte
	Stderr   []byte
	Exit     int
	TimedOut bool
	Dur      time.Duration
	Err      string
}

// Run executes a protoc plugin with the request on stdin.
func Run(bin string, req []byte, env []string, timeout time.Duration) RunResult {
	ctx, cancel := context.WithTimeout(context.Background(), timeout)
	defer cancel()
	cmd := exec.CommandContext(ctx, bin)
	cmd.Stdin = bytes.NewReader(req)
	var so, se bytes.Buffer
	cmd.Stdout, cmd.Stderr = &so, &se
	cmd.Env = append(os.Environ(), env...)
	t0 := time.Now()
	err := cmd.Run()
	r := RunResult{Stdout: so.Bytes(), Stderr: se.Bytes(), Dur: time.Since(t0)}
	if ctx.Err() == context.DeadlineExceeded {
		r.TimedOut = true
	}
	if err != nil {
		r.Err = err.Error()
		if ee, ok := err.(*exec.ExitError); ok {
			if ws, ok := ee.Sys().(syscall.WaitStatus); ok && ws.Exited() {
				r.Exit = ws.ExitStatus()
			} else {
				r.Exit = -1
			}
		} else {
			r.Exit = -1
		}
	}
	return r
}

// Parallel runs f(i) for i in [0,n) on all cores.
func Parallel(n int, f func(i int)) {
	workers := runtime.NumCPU()
	if workers > n {
		workers = n
	}
	if workers < 1 {
		workers = 1
	}
	var wg sync.WaitGroup
	ch := make(chan int)
	for k := 0; k < workers; k++ {
		wg.Add(1)
		go func() {
			defer wg.Done()
			for i := range ch {
				f(i)
			}
		}()
	}
	for i := 0; i < n; i++ {
		ch <- i
	}
	close(ch)
	wg.Wait()
}

// ModuleDir is the scratch Go module holding the generated packages.
func (w *Workspace) ModuleDir() string { return filepath.Join(w.Dir, "vw") }

// InitModule writes go.mod / go.sum of the scratch module.
func (w *Workspace) InitModule() error {
	md := w.ModuleDir()
	if err := os.MkdirAll(md, 0o755); err != nil {
		return err
	}
	vm, err := ioutil.ReadFile(filepath.Join(VerifDir, "go.mod"))
	if err != nil {
		return err
	}
	// reuse verif's requirement blocks verbatim
	s := string(vm)
	i := strings.Index(s, "require")
	gomod := "module vw\n\ngo 1.18\n\nrequire verif v0.0.0\n\nrequire " + DigitModule + " v0.0.0\n\nreplace verif => " + VerifDir + "\n\nreplace " + DigitModule + " => ./_ext9\n\n" + s[i:]
	if err := ioutil.WriteFile(filepath.Join(md, "go.mod"), []byte(gomod), 0o644); err != nil {
		return err
	}
	sum, err := ioutil.ReadFile(filepath.Join(VerifDir, "go.sum"))
	if err != nil {
		return err
	}
	// the second module (struct packages at an import path that begins with a digit)
	ext := filepath.Join(md, "_ext9")
	if err := os.MkdirAll(ext, 0o755); err != nil {
		return err
	}
	extmod := "module " + DigitModule + "\n\ngo 1.18\n\nrequire verif v0.0.0\n\nreplace verif => " + VerifDir + "\n\n" + s[i:]
	if err := ioutil.WriteFile(filepath.Join(ext, "go.mod"), []byte(extmod), 0o644); err != nil {
		return err
	}
	if err := ioutil.WriteFile(filepath.Join(ext, "go.sum"), sum, 0o644); err != nil {
		return err
	}
	return ioutil.WriteFile(filepath.Join(md, "go.sum"), sum, 0o644)
}

// WriteFile writes a file below the module, creating directories.
func (w *Workspace) WriteFile(rel string, data []byte) error {
	p := filepath.Join(w.ModuleDir(), rel)
	if err := os.MkdirAll(filepath.Dir(p), 0o755); err != nil {
		return err
	}
	return ioutil.WriteFile(p, data, 0o644)
}

// BuildPackages compiles the given package patterns and returns, per import
// path, the compiler output of the packages that failed.
func (w *Workspace) BuildPackages(patterns ...string) (map[string]string, error) {
	args := append([]string{"build", "-gcflags=-e"}, patterns...)
	fails := map[string]string{}
	var out []byte
	var err error
	// a package importing a path that no module provides stops the whole build before anything is
	// compiled: such packages are recorded as failed, moved out of the pattern's reach and the build is repeated
	for round := 0; ; round++ {
		out, err = w.Go(w.ModuleDir(), nil, args...)
		if err == nil {
			if len(fails) == 0 {
				return nil, nil
			}
			return fails, nil
		}
		moved := false
		for _, line := range strings.Split(string(out), "\n") {
			m := unresolvedRe.FindStringSubmatch(line)
			if m == nil {
				continue
			}
			dir := filepath.Dir(m[1])
			if filepath.IsAbs(dir) { // (the go command reports some import errors with absolute file names)
				if rel, e := filepath.Rel(w.ModuleDir(), dir); e == nil {
					dir = rel
				}
			}
			pkg := "vw/" + filepath.ToSlash(dir)
			if _, seen := fails[pkg]; seen {
				continue
			}
			fails[pkg] = line + "\n"
			abs := filepath.Join(w.ModuleDir(), dir)
			if e := os.Rename(abs, filepath.Join(filepath.Dir(abs), "_unresolved_"+filepath.Base(abs))); e == nil {
				moved = true
			}
		}
		if !moved || round > 50 {
			break
		}
	}
	cur := ""
	for _, line := range strings.Split(string(out), "\n") {
		if strings.HasPrefix(line, "# ") {
			cur = strings.Fields(line)[1]
			fails[cur] = ""
			continue
		}
		if cur != "" {
			fails[cur] += line + "\n"
		}
	}
	if len(fails) == 0 {
		return nil, fmt.Errorf("go build failed: %v\n%s", err, out)
	}
	return fails, nil
}

var unresolvedRe = regexp.MustCompile(`^([^\s:]+\.go):\d+:\d+: (?:cannot find module providing package|no required module provides package|package \S+ is not in (?:std|GOROOT)|invalid import path|malformed import path)`)

// BuildDriver links the driver binary importing the given case packages.
func (w *Workspace) BuildDriver(name string, imports []string, race bool) (string, error) {
	var b strings.Builder
	b.WriteString("package main\n\nimport (\n\t\"verif/rt\"\n")
	for _, imp := range imports {
		fmt.Fprintf(&b, "\t_ %q\n", imp)
	}
	b.WriteString(")\n\nfunc main() { rt.Main() }\n")
	if err := w.WriteFile(filepath.Join("cmd", name, "main.go"), []byte(b.String())); err != nil {
		return "", err
	}
	out := filepath.Join(w.Dir, "bin", name)
	args := []string{"build"}
	var env []string
	if race {
		args = append(args, "-race")
		env = append(env, "CGO_ENABLED=1")
	}
	args = append(args, "-o", out, "./cmd/"+name)
	if o, err := w.Go(w.ModuleDir(), env, args...); err != nil {
		return "", fmt.Errorf("linking driver failed: %v\n%s", err, o)
	}
	return out, nil
}

// RunDriver runs a driver process; stdout+stderr go to logPath.
func RunDriver(bin string, args []string, logPath string, timeout time.Duration) (exit int, timedOut bool, err error) {
	ctx, cancel := context.WithTimeout(context.Background(), timeout)
	defer cancel()
	lf, err := os.Create(logPath)
	if err != nil {
		return -1, false, err
	}
	defer lf.Close()
	cmd := exec.CommandContext(ctx, bin, args...)
	cmd.Stdout, cmd.Stderr = lf, lf
	cmd.Env = append(os.Environ(), "GOTRACEBACK=all")
	e := cmd.Run()
	if ctx.Err() == context.DeadlineExceeded {
		return -1, true, nil
	}
	if e != nil {
		if ee, ok := e.(*exec.ExitError); ok {
			if ws, ok := ee.Sys().(syscall.WaitStatus); ok && ws.Exited() {
				return ws.ExitStatus(), false, nil
			}
		}
		return -1, false, nil
	}
	return 0, false, nil
}

package pipeline

import (
	"fmt"
	"go/ast"
	"go/parser"
	"go/token"
	"io/ioutil"
	"os"
	"path"
	"path/filepath"
	"sort"
	"strings"
	"time"

	"github.com/gogo/protobuf/protoc-gen-gogo/generator"
	gproto "google.golang.org/protobuf/proto"
	"google.golang.org/protobuf/types/pluginpb"

	"verif/internal/descgen"
	"verif/internal/ir"
	"verif/internal/refmodel"
	"verif/rt/spec"
)

// Case is one (descriptor, configuration, delivery) triple and everything
// observed while pushing it through both plugins.
type Case struct {
	Name     string
	File     *ir.File
	Cfg      *ir.Config
	Delivery descgen.Delivery
	Tags     []string
	// Separate: generate into a package different from the structs' package.
	Separate bool
	// UseOverride: default_package_name is an alias resolved by import_path_overrides.
	UseOverride bool
	// DottedPath: the struct package lives at a gopkg.in-style import path ("…/name.v1").
	DottedPath bool
	// SameName: the terraform package has the same NAME as the struct package but is a different directory.
	SameName bool
	// ForeignGoPackage: the file's go_package names another import path ending in the struct package
	// name; the structs really live where import_path_overrides says (vendored / relocated structs).
	ForeignGoPackage bool
	// FullPathOverride: default_package_name is a full import path at which nothing lives; the
	// import_path_overrides entry keyed by that full path names the real place of the structs.
	FullPathOverride bool
	// DigitPath: the struct package lives in a module whose path begins with a digit.
	DigitPath bool
	// HyphenPath: the last element of the struct import path is not an identifier ("go-<pkg>_x") and differs from the package name.
	HyphenPath bool
	// TimeSuffixPath: the last element of the struct import path ends in "time" ("…/uptime"), so that a
	// struct-package type called Duration / Time is qualified as `…uptime.Duration` in the generated file.
	TimeSuffixPath bool
	// DecoyPrefixOverrides: import_path_overrides entries whose keys are proper string prefixes of the struct
	// import path without being a path prefix of it (`…/k5` for `…/k5s`): they match no package.
	DecoyPrefixOverrides bool
	// CleanedPkgName: go_package is a bare import path whose last element is no identifier ("…/go-<name>.v1"),
	// so the Go package name is what gogo makes of it ("go_<name>_v1"); the structs live at that path.
	CleanedPkgName bool
	// MixedCaseTarget: the target package is called `tfSchema` (a legal Go package name with a capital).
	MixedCaseTarget bool
	// PrefixTarget: the target package name is a proper prefix of the struct package name (k5s -> k5).
	PrefixTarget bool
	// TypesNamedPkg: the struct package is called `types` (like the framework package the generated file
	// imports as well) and is addressed through the alias + import_path_overrides form of the README.
	TypesNamedPkg bool
	// MixedCasePkg: the struct package has a Go name with capitals (go_package = "<name>Xpi", X the initial of the first selected type).
	MixedCasePkg bool
	// CfgDir, when set, is the directory (below the workspace) the configuration file is written to instead of "cfg".
	CfgDir string
	// RawParam, when set, replaces the computed parameter string (C16 error cases).
	RawParam *string
	// NoWrite: do not place the case in the Go workspace (L1-only cases).
	NoWrite bool
	// PluginVariant selects the plugin build ("", "race", "cover").
	PluginVariant string
	PluginEnv     []string

	Spec    *spec.Case
	YAML    string
	Param   string
	Request []byte

	Gogo   RunResult
	Plugin RunResult
	// Resp is the decoded response (nil when stdout does not decode).
	Resp      *pluginpb.CodeGeneratorResponse
	TFName    string
	TFContent string
	Funcs     []string // top-level function names in the generated file
	TFPackage string   // package clause of the generated file

	StructImport string // import path of the struct package inside vw
	TFImport     string // import path of the terraform package inside vw
	StructPkg    string // Go package name of the structs
	ExpectTFPkg  string
	BuildErr     string // compiler output when the case did not compile
	GenErr       string // why the case could not be assembled (plugin failure etc.)
}

// StructPkgName returns the Go package name gogo uses for the case's structs.
func structPkgName(f *ir.File) string {
	_, n := descgen.GoPackageOf(f)
	return n
}

// Prepare computes layout-dependent configuration (package names, overrides),
// the spec, the YAML/param and the request. It does not run anything.
func (w *Workspace) Prepare(c *Case) {
	if c.TypesNamedPkg && c.File.Dep == nil {
		c.File.GoPackage = "types"
		c.UseOverride = true
	}
	if c.MixedCasePkg && c.File.Dep == nil {
		// the capital is the initial of the first selected type (whoever strips the package prefix from a
		// qualified type name by character set rather than by prefix eats into the type name)
		suffix := "Api"
		if len(c.Cfg.Types) > 0 && c.Cfg.Types[0] != "" && c.Cfg.Types[0][0] >= 'A' && c.Cfg.Types[0][0] <= 'Z' {
			suffix = c.Cfg.Types[0][:1] + "pi"
		}
		c.File.GoPackage = c.Name + suffix
	}
	if c.Separate && c.CleanedPkgName && c.File.Dep == nil {
		c.File.GoPackage = "vw/cases/" + c.Name + "/go-" + c.Name + ".v1"
	}
	c.StructPkg = structPkgName(c.File)
	base := "vw/cases/" + c.Name
	if c.Separate && c.ForeignGoPackage && c.UseOverride && c.File.Dep == nil {
		c.File.GoPackage = "upstream.example/api/" + c.StructPkg
	}
	if c.Separate {
		c.StructImport = base + "/" + c.StructPkg
		if c.DottedPath {
			c.StructImport += ".v1"
		}
		if c.HyphenPath {
			c.StructImport = base + "/go-" + c.StructPkg + "_x"
		}
		if c.CleanedPkgName && c.File.Dep == nil {
			c.StructImport = c.File.GoPackage
		}
		if c.TimeSuffixPath {
			c.StructImport = base + "/uptime"
		}
		if c.DigitPath {
			c.StructImport = DigitModule + "/cases/" + c.Name + "/" + c.StructPkg
		}
		tp := c.Cfg.TargetPackageName
		if tp == "" {
			tp = "tfschema"
			if c.MixedCaseTarget {
				tp = "tfSchema"
			}
			c.Cfg.TargetPackageName = tp
		}
		c.TFImport = base + "/" + tp
		if c.PrefixTarget && len(c.StructPkg) > 2 {
			tp = c.StructPkg[:len(c.StructPkg)-1]
			c.Cfg.TargetPackageName = tp
			c.TFImport = base + "/tf/" + tp
		}
		if c.SameName {
			tp = c.StructPkg
			c.Cfg.TargetPackageName = tp
			c.TFImport = base + "/tf/" + tp
		}
		if c.FullPathOverride {
			c.Cfg.DefaultPackageName = "upstream.example/api/v2/" + c.StructPkg
			if c.Cfg.ImportPathOverrides == nil {
				c.Cfg.ImportPathOverrides = map[string]string{}
			}
			c.Cfg.ImportPathOverrides[c.Cfg.DefaultPackageName] = c.StructImport
		} else if c.UseOverride {
			c.Cfg.DefaultPackageName = c.StructPkg
			if c.Cfg.ImportPathOverrides == nil {
				c.Cfg.ImportPathOverrides = map[string]string{}
			}
			c.Cfg.ImportPathOverrides[c.StructPkg] = c.StructImport
		} else {
			c.Cfg.DefaultPackageName = c.StructImport
		}
		if c.DecoyPrefixOverrides {
			if c.Cfg.ImportPathOverrides == nil {
				c.Cfg.ImportPathOverrides = map[string]string{}
			}
			c.Cfg.ImportPathOverrides[c.StructImport[:len(c.StructImport)-1]] = "example.com/decoy/one"
			c.Cfg.ImportPathOverrides[c.StructImport[:strings.LastIndex(c.StructImport, "/")+2]] = "example.com/decoy/two"
			if c.UseOverride && !c.FullPathOverride && !c.ForeignGoPackage && c.Cfg.DefaultPackageName != c.StructImport {
				// the alias form of the README plus an entry keyed by the path the alias stands for: nothing in the
				// descriptor spells that path out, and an override is applied once, so the entry is inert
				c.Cfg.ImportPathOverrides[c.StructImport] = "example.com/mirror/" + c.StructPkg
			}
		}
		c.ExpectTFPkg = tp
	} else {
		c.StructImport = base
		c.TFImport = base
		c.ExpectTFPkg = c.StructPkg
		if c.Cfg.TargetPackageName != "" {
			c.ExpectTFPkg = c.Cfg.TargetPackageName
		}
	}
	if c.File.Dep != nil {
		dimp, dname := descgen.GoPackageOf(c.File.Dep)
		if dimp != "" { // dependency lives in its own Go package
			if c.Cfg.ImportPathOverrides == nil {
				c.Cfg.ImportPathOverrides = map[string]string{}
			}
			if _, ok := c.Cfg.ImportPathOverrides[dname]; !ok {
				c.Cfg.ImportPathOverrides[dname] = dimp
			}
		}
	}
	c.Spec = refmodel.Build(c.Name, c.File, c.Cfg)
	if err := refmodel.Check(c.Spec); err != nil {
		c.GenErr = "HARNESS: corpus generator produced an ambiguous case: " + err.Error()
	}
	c.Spec.Tags = c.Tags
	yaml, params := descgen.Emit(c.Cfg, c.Delivery)
	c.YAML = yaml
	yamlPath := ""
	if yaml != "" {
		dir := "cfg"
		if c.CfgDir != "" {
			dir = c.CfgDir
			os.MkdirAll(filepath.Join(w.Dir, dir), 0o755)
		}
		yamlPath = filepath.Join(w.Dir, dir, c.Name+".yaml")
		ioutil.WriteFile(yamlPath, []byte(yaml), 0o644)
		if c.CfgDir != "" {
			// the parameter names the file the way the caller spelled it (`./`, `..` and `//` elements are kept)
			yamlPath = w.Dir + "/" + dir + "/" + c.Name + ".yaml"
		}
	}
	c.Param = descgen.Param(params, yamlPath)
	if c.RawParam != nil {
		c.Param = *c.RawParam
	}
	req := descgen.Request(c.File, c.Param)
	if c.File.Dep != nil && hasTag(c.Tags, "generate-dep-too") {
		// protoc invoked with both files at once: the dependency first, as protoc orders them
		req.FileToGenerate = []string{c.File.Dep.Name, c.File.Name}
	}
	c.Request = descgen.MarshalRequest(req)
}

func hasTag(tags []string, t string) bool {
	for _, x := range tags {
		if x == t {
			return true
		}
	}
	return false
}

// PluginTimeout is the watchdog for one plugin run (normal run time is ~0.2 s,
// ~3 s under -race).
var PluginTimeout = 180 * time.Second

// Generate runs protoc-gen-gogo and the plugin under test on the case.
func (w *Workspace) Generate(c *Case) {
	if c.GenErr != "" {
		return
	}
	plug, err := w.BuildPlugin(c.PluginVariant)
	if err != nil {
		c.GenErr = err.Error()
		return
	}
	c.Plugin = Run(plug, c.Request, c.PluginEnv, PluginTimeout)
	c.decode()
	if c.NoWrite {
		return
	}
	gogo, err := w.Gogo()
	if err != nil {
		c.GenErr = err.Error()
		return
	}
	// gogo gets the same descriptors with an empty parameter
	greq := descgen.MarshalRequest(descgen.Request(c.File, ""))
	c.Gogo = Run(gogo, greq, nil, PluginTimeout)
	if c.Gogo.Exit != 0 || c.Gogo.Err != "" {
		c.GenErr = fmt.Sprintf("HARNESS: protoc-gen-gogo failed: %s %s", c.Gogo.Err, c.Gogo.Stderr)
		return
	}
	gresp := &pluginpb.CodeGeneratorResponse{}
	if err := gproto.Unmarshal(c.Gogo.Stdout, gresp); err != nil || gresp.Error != nil {
		c.GenErr = fmt.Sprintf("HARNESS: protoc-gen-gogo response: %v %s", err, gresp.GetError())
		return
	}
	if c.TFContent == "" {
		if c.GenErr == "" {
			c.GenErr = "plugin produced no file"
		}
		return
	}
	if err := w.writeCase(c, gresp); err != nil {
		c.GenErr = "HARNESS: " + err.Error()
	}
}

func (c *Case) decode() {
	if c.Plugin.Exit != 0 || c.Plugin.Err != "" {
		c.GenErr = fmt.Sprintf("plugin exit=%d %s: %s", c.Plugin.Exit, c.Plugin.Err, lastLines(string(c.Plugin.Stderr), 6))
		return
	}
	resp := &pluginpb.CodeGeneratorResponse{}
	if err := gproto.Unmarshal(c.Plugin.Stdout, resp); err != nil {
		c.GenErr = "plugin stdout does not decode: " + err.Error()
		return
	}
	c.Resp = resp
	if resp.Error != nil {
		c.GenErr = "plugin reported error: " + resp.GetError()
		return
	}
	if len(resp.File) >= 1 {
		c.TFName = resp.File[0].GetName()
		c.TFContent = resp.File[0].GetContent()
		c.scanFuncs()
	}
}

func (c *Case) scanFuncs() {
	fs := token.NewFileSet()
	f, err := parser.ParseFile(fs, "tf.go", c.TFContent, parser.SkipObjectResolution)
	if err != nil {
		return
	}
	c.TFPackage = f.Name.Name
	for _, d := range f.Decls {
		if fd, ok := d.(*ast.FuncDecl); ok && fd.Recv == nil {
			c.Funcs = append(c.Funcs, fd.Name.Name)
		}
	}
	sort.Strings(c.Funcs)
}

func lastLines(s string, n int) string {
	l := strings.Split(strings.TrimSpace(s), "\n")
	if len(l) > n {
		l = l[len(l)-n:]
	}
	return strings.Join(l, " | ")
}

// GeneratedTypes returns the message names for which all three functions exist.
func (c *Case) GeneratedTypes() []string {
	have := map[string]int{}
	for _, f := range c.Funcs {
		switch {
		case strings.HasPrefix(f, "GenSchema"):
			have[strings.TrimPrefix(f, "GenSchema")]++
		case strings.HasPrefix(f, "Copy") && strings.HasSuffix(f, "FromTerraform"):
			have[strings.TrimSuffix(strings.TrimPrefix(f, "Copy"), "FromTerraform")]++
		case strings.HasPrefix(f, "Copy") && strings.HasSuffix(f, "ToTerraform"):
			have[strings.TrimSuffix(strings.TrimPrefix(f, "Copy"), "ToTerraform")]++
		}
	}
	var r []string
	for k, n := range have {
		if n == 3 {
			r = append(r, k)
		}
	}
	sort.Strings(r)
	return r
}

// DigitModule is a second module of the workspace whose path begins with a digit (9fans.net style).
const DigitModule = "9vw.example"

func relDir(importPath string) string {
	if strings.HasPrefix(importPath, DigitModule+"/") {
		return "_ext9/" + strings.TrimPrefix(importPath, DigitModule+"/")
	}
	return strings.TrimPrefix(importPath, "vw/")
}

func (w *Workspace) writeCase(c *Case, gresp *pluginpb.CodeGeneratorResponse) error {
	// gogo output: one .pb.go per generated file (we generate the main file; the
	// dependency is generated by a second gogo run below when it exists).
	for _, f := range gresp.File {
		if err := w.WriteFile(filepath.Join(relDir(c.StructImport), path.Base(f.GetName())), []byte(f.GetContent())); err != nil {
			return err
		}
	}
	if c.File.Dep != nil {
		dimp, _ := descgen.GoPackageOf(c.File.Dep)
		dreq := descgen.Request(c.File, "")
		dreq.FileToGenerate = []string{c.File.Dep.Name}
		gogo, _ := w.Gogo()
		r := Run(gogo, descgen.MarshalRequest(dreq), nil, PluginTimeout)
		dresp := &pluginpb.CodeGeneratorResponse{}
		if err := gproto.Unmarshal(r.Stdout, dresp); err != nil || dresp.Error != nil || r.Exit != 0 {
			return fmt.Errorf("protoc-gen-gogo on dependency: %v %s %s", err, dresp.GetError(), r.Stderr)
		}
		ddir := relDir(c.StructImport)
		if dimp != "" {
			ddir = relDir(dimp)
		}
		for _, f := range dresp.File {
			if err := w.WriteFile(filepath.Join(ddir, path.Base(f.GetName())), []byte(f.GetContent())); err != nil {
				return err
			}
		}
		if dimp != "" {
			_, dn := descgen.GoPackageOf(c.File.Dep)
			if err := w.WriteFile(filepath.Join(ddir, "support_struct.go"), []byte(structSupport(dn))); err != nil {
				return err
			}
		}
	}
	if err := w.WriteFile(filepath.Join(relDir(c.StructImport), "support_struct.go"), []byte(structSupport(c.StructPkg))); err != nil {
		return err
	}
	if err := w.WriteFile(filepath.Join(relDir(c.TFImport), "gen_terraform.go"), []byte(c.TFContent)); err != nil {
		return err
	}
	tfpkg := c.TFPackage
	if tfpkg == "" {
		tfpkg = c.ExpectTFPkg
	}
	if err := w.WriteFile(filepath.Join(relDir(c.TFImport), "support_tf.go"), []byte(tfSupport(tfpkg, c))); err != nil {
		return err
	}
	return w.WriteFile(filepath.Join(relDir(c.TFImport), "register.go"), []byte(registerSrc(tfpkg, c)))
}

// structSupport defines the cast / custom target types of the struct package.
func structSupport(pkg string) string {
	return `package ` + pkg + `

import "time"

// cast target types (gogoproto.casttype) and custom types (gogoproto.customtype)
type (
	CastString string
	CastBytes  []byte
	CastBool   bool
	CastInt32  int32
	CastInt64  int64
	CastFloat  float32
	Duration   int64
	// not the configured duration type: the names only end / start like it
	BillingDuration int64
	DurationSeconds int64
	BackoffDuration float64
	CustomA    struct{ V string }
	CustomB    bool
	Custom_C   struct{ V string }
)

func (d Duration) String() string { return time.Duration(d).String() }
`
}

func collectSuffixes(c *spec.Case) []string {
	set := map[string]bool{}
	var walk func(m *spec.Msg)
	walk = func(m *spec.Msg) {
		for _, a := range m.Attrs {
			if a.Kind == spec.KCustom && !a.Excluded {
				set[a.CustomSuffix] = true
			}
			if a.Msg != nil {
				walk(a.Msg)
			}
		}
	}
	for _, r := range c.Roots {
		walk(r)
	}
	var r []string
	for s := range set {
		r = append(r, s)
	}
	sort.Strings(r)
	return r
}

func tfSupport(pkg string, c *Case) string {
	var b strings.Builder
	b.WriteString("package " + pkg + "\n\nimport (\n\t\"context\"\n\n\t\"github.com/hashicorp/terraform-plugin-framework/attr\"\n\t\"github.com/hashicorp/terraform-plugin-framework/diag\"\n\t\"github.com/hashicorp/terraform-plugin-framework/tfsdk\"\n\t\"verif/rt/tfx\"\n)\n\n")
	b.WriteString("var _ context.Context\nvar _ attr.Value\nvar _ diag.Diagnostics\nvar _ tfsdk.Attribute\n\n")
	b.WriteString("// unqualified names for configurations that name the types without a package\ntype (\n\tTimeType = tfx.TimeType\n\tTimeValue = tfx.TimeValue\n\tDurationType = tfx.DurationType\n\tDurationValue = tfx.DurationValue\n)\n\n")
	b.WriteString("func UseRFC3339Time() tfx.TimeType { return tfx.UseRFC3339Time() }\nfunc UseDuration() tfx.DurationType { return tfx.UseDuration() }\n\n")
	for _, s := range collectSuffixes(c.Spec) {
		fmt.Fprintf(&b, "func GenSchema%[1]s(_ context.Context, a tfsdk.Attribute) tfsdk.Attribute { return tfx.RecGenSchema(%[1]q, a) }\n", s)
		fmt.Fprintf(&b, "func CopyFrom%[1]s[T any](diags diag.Diagnostics, v attr.Value, o *T) { tfx.RecCopyFrom(%[1]q, diags, v, o) }\n", s)
		fmt.Fprintf(&b, "func CopyTo%[1]s[T any](diags diag.Diagnostics, o T, t attr.Type, v attr.Value) attr.Value {\n\treturn tfx.RecCopyTo(%[1]q, diags, o, t, v)\n}\n\n", s)
	}
	return b.String()
}

// registerSrc registers what the generated file defines, through typed
// function variables (exact signatures of C01).
func registerSrc(pkg string, c *Case) string {
	var b strings.Builder
	sep := c.StructImport != c.TFImport
	q := ""
	b.WriteString("package " + pkg + "\n\nimport (\n\t\"context\"\n\t\"reflect\"\n\n\t\"github.com/hashicorp/terraform-plugin-framework/diag\"\n\t\"github.com/hashicorp/terraform-plugin-framework/tfsdk\"\n\t\"github.com/hashicorp/terraform-plugin-framework/types\"\n\t\"verif/rt\"\n")
	if sep {
		fmt.Fprintf(&b, "\tvpb %q\n", c.StructImport)
		q = "vpb."
	}
	depq := ""
	if c.File.Dep != nil {
		if dimp, _ := descgen.GoPackageOf(c.File.Dep); dimp != "" {
			fmt.Fprintf(&b, "\tvdep %q\n", dimp)
			depq = "vdep."
		} else {
			depq = q
		}
	}
	b.WriteString(")\n\nvar (\n\t_ reflect.Type\n\t_ context.Context\n\t_ diag.Diagnostics\n\t_ tfsdk.Schema\n\t_ types.Object\n)\n\nfunc init() {\n")
	fmt.Fprintf(&b, "\tr := &rt.CaseReg{Name: %q, Types: map[string]*rt.TypeReg{}, Wrappers: map[string]reflect.Type{}, Structs: map[string]reflect.Type{}}\n", c.Name)
	for _, t := range c.GeneratedTypes() {
		if c.File.Msg(t, false) == nil {
			continue // a function set for something that is not a message of the file: left to C01/C12
		}
		gt := q + generator.CamelCase(t)
		fmt.Fprintf(&b, "\t{\n\t\tvar gs func(context.Context) (tfsdk.Schema, diag.Diagnostics) = GenSchema%[1]s\n\t\tvar cf func(context.Context, types.Object, *%[2]s) diag.Diagnostics = Copy%[1]sFromTerraform\n\t\tvar ct func(context.Context, *%[2]s, *types.Object) diag.Diagnostics = Copy%[1]sToTerraform\n", t, gt)
		fmt.Fprintf(&b, "\t\tr.Types[%[1]q] = &rt.TypeReg{\n\t\t\tNew: func() interface{} { return &%[2]s{} },\n\t\t\tGenSchema: gs,\n\t\t\tCopyFrom: func(ctx context.Context, o types.Object, p interface{}) diag.Diagnostics { return cf(ctx, o, p.(*%[2]s)) },\n\t\t\tCopyTo: func(ctx context.Context, p interface{}, o *types.Object) diag.Diagnostics { return ct(ctx, p.(*%[2]s), o) },\n\t\t}\n\t}\n", t, gt)
	}
	reg := func(f *ir.File, qq string) {
		for _, m := range f.Messages {
			fmt.Fprintf(&b, "\tr.Structs[%q] = reflect.TypeOf(%s%s{})\n", m.Name, qq, generator.CamelCase(m.Name))
			for _, fl := range m.Fields {
				if fl.Oneof >= 0 {
					wn := generator.CamelCase(m.Name) + "_" + generator.CamelCase(fl.Name)
					fmt.Fprintf(&b, "\tr.Wrappers[%q] = reflect.TypeOf(%s%s{})\n", wn, qq, wn)
				}
			}
		}
	}
	reg(c.File, q)
	if c.File.Dep != nil {
		reg(c.File.Dep, depq)
	}
	b.WriteString("\trt.Register(r)\n}\n")
	return b.String()
}

// Package refmodel derives, from the harness IR alone, what the README and the
// property statements promise for a (descriptor, configuration) pair. It is
// written from the documentation, not from the generator's code, and shares no
// code with /repo.
package refmodel

import (
	"fmt"
	"regexp"
	"strings"
	"unicode"

	"github.com/gogo/protobuf/protoc-gen-gogo/generator"

	"verif/internal/ir"
	"verif/rt/spec"
)

// SnakeCase converts an UpperCamel identifier built from words
// [A-Z][a-z0-9]+ (or a lower_snake identifier) to snake_case.
func SnakeCase(s string) string {
	var b strings.Builder
	for i, r := range s {
		if unicode.IsUpper(r) {
			if i > 0 && !strings.HasSuffix(b.String(), "_") {
				b.WriteByte('_')
			}
			b.WriteRune(unicode.ToLower(r))
		} else {
			b.WriteRune(r)
		}
	}
	return b.String()
}

// Flatten is the documented comment flattening: split on newlines, trim each
// line, join by one space, trim.
func Flatten(c string) string {
	lines := strings.Split(c, "\n")
	for i := range lines {
		lines[i] = strings.TrimSpace(lines[i])
	}
	return strings.TrimSpace(strings.Join(lines, " "))
}

var idRe = regexp.MustCompile(`\("([^"]*)"\)`)

// ModID extracts the id from a harness validator / plan modifier expression
// (`verif/rt/tfx.V("id")`); the framework's UseStateForUnknown is "USFU".
func ModID(expr string) string {
	if strings.HasSuffix(expr, "tfsdk.UseStateForUnknown()") {
		return "USFU"
	}
	m := idRe.FindStringSubmatch(expr)
	if m == nil {
		return expr
	}
	return m[1]
}

func ids(exprs []string) []string {
	var r []string
	for _, e := range exprs {
		r = append(r, ModID(e))
	}
	return r
}

func has(list []string, keys ...string) bool {
	for _, l := range list {
		for _, k := range keys {
			if l == k {
				return true
			}
		}
	}
	return false
}

type builder struct {
	file *ir.File
	cfg  *ir.Config
}

// Build returns the case model. Roots are the configured types that exist in
// the generated file, in declaration order.
func Build(name string, file *ir.File, cfg *ir.Config) *spec.Case {
	b := &builder{file, cfg}
	c := &spec.Case{Name: name}
	for _, m := range file.Messages {
		if has(cfg.Types, m.Name) {
			c.Roots = append(c.Roots, b.msg(m, false, m.Name, 0))
		}
	}
	if cfg.TimeType != nil && cfg.TimeType.TypeConstructor != "" {
		c.TimeCtor = true
	}
	if cfg.DurationType != nil && cfg.DurationType.TypeConstructor != "" {
		c.DurCtor = true
	}
	return c
}

func (b *builder) msg(m *ir.Message, dep bool, path string, depth int) *spec.Msg {
	if depth > 8 {
		panic("message graph too deep / cyclic: " + path)
	}
	ms := &spec.Msg{Name: m.Name, Path: path, Dep: dep, Empty: len(m.Fields) == 0}
	ms.Attrs = b.fields(m, dep, path, nil, depth)
	ms.Placeholder = ms.Empty || b.embedsEmpty(m, dep, 0)
	for _, inj := range b.cfg.InjectedFields[path] {
		t := inj.Type[strings.LastIndex(inj.Type, ".")+1:]
		t = strings.ToLower(strings.TrimSuffix(t, "Type"))
		ms.Injected = append(ms.Injected, spec.Injected{Name: inj.Name, Type: t, Required: inj.Required, Computed: inj.Computed,
			Optional: inj.Optional, Validators: ids(inj.Validators), PlanModifiers: ids(inj.PlanModifiers)})
	}
	return ms
}

// embedsEmpty reports whether m embeds (directly or through embedded messages) a message
// without fields: its placeholder attribute is flattened into m's level.
func (b *builder) embedsEmpty(m *ir.Message, dep bool, depth int) bool {
	if depth > 6 {
		return false
	}
	for _, f := range m.Fields {
		if !f.Embed || has(b.cfg.ExcludeFields, m.Name+"."+f.Name) {
			continue
		}
		em := b.file.Msg(f.Ref, f.RefDep || dep)
		if em == nil {
			continue
		}
		if len(em.Fields) == 0 || b.embedsEmpty(em, f.RefDep || dep, depth+1) {
			return true
		}
	}
	return false
}

func leafOf(s ir.Scalar) string {
	switch s {
	case ir.Double, ir.Float:
		return spec.LFloat64
	case ir.Bool:
		return spec.LBool
	case ir.String, ir.Bytes:
		return spec.LString
	}
	return spec.LInt64
}

// fields returns the attributes of message m occurring at path, embedded
// messages flattened (access is the chain of embedded structs traversed so far).
func (b *builder) fields(m *ir.Message, dep bool, path string, access []spec.Step, depth int) []*spec.Attr {
	var out []*spec.Attr
	for _, f := range m.Fields {
		fpath := path + "." + f.Name
		key := m.Name + "." + f.Name
		if f.Embed {
			em := b.file.Msg(f.Ref, f.RefDep || dep)
			if em == nil {
				panic("unknown embedded message " + f.Ref)
			}
			step := spec.Step{GoName: em.Name, Ptr: f.IsPtr(), Msg: em.Name}
			if has(b.cfg.ExcludeFields, key) {
				continue
			}
			// an embedding field adds nothing to the path
			sub := b.fields(em, f.RefDep || dep, path, append(append([]spec.Step(nil), access...), step), depth+1)
			out = append(out, sub...)
			continue
		}
		a := &spec.Attr{
			Proto:   f.Name,
			GoName:  generator.CamelCase(f.Name),
			Path:    fpath,
			TypeKey: key,
			Access:  access,
			Ptr:     f.IsPtr(),
		}
		// attribute name
		if v, ok := b.cfg.NameOverrides[fpath]; ok {
			a.Attr = v
		} else if v, ok := b.cfg.NameOverrides[key]; ok {
			a.Attr = v
		} else if f.JSONTag != nil && strings.Split(*f.JSONTag, ",")[0] != "" && strings.Split(*f.JSONTag, ",")[0] != "-" {
			a.Attr = strings.Split(*f.JSONTag, ",")[0]
		} else {
			a.Attr = SnakeCase(f.Name)
		}
		a.Excluded = has(b.cfg.ExcludeFields, fpath, key)
		a.Required = has(b.cfg.RequiredFields, fpath, key)
		a.Computed = has(b.cfg.ComputedFields, fpath, key)
		a.Sensitive = has(b.cfg.SensitiveFields, fpath, key)
		if v, ok := b.cfg.Validators[fpath]; ok {
			a.Validators = ids(v)
		} else if v, ok := b.cfg.Validators[key]; ok {
			a.Validators = ids(v)
		}
		if v, ok := b.cfg.PlanModifiers[fpath]; ok {
			a.PlanModifiers = ids(v)
		} else if v, ok := b.cfg.PlanModifiers[key]; ok {
			a.PlanModifiers = ids(v)
		} else if b.cfg.UseStateForUnknown && a.Computed {
			a.PlanModifiers = []string{"USFU"}
		}
		if f.HasComment {
			a.Description = Flatten(f.Comment)
			a.HasComment = true
		}
		if f.Oneof >= 0 {
			on := m.Oneofs[f.Oneof]
			holder := generator.CamelCase(on)
			grp := ""
			for _, s := range access {
				grp += s.GoName + "."
			}
			a.Oneof = &spec.OneofRef{Holder: holder, Wrapper: generator.CamelCase(m.Name) + "_" + generator.CamelCase(f.Name), Name: on, Group: grp + holder}
		}

		cardPrefix := ""
		switch f.Card {
		case ir.Repeated:
			cardPrefix = "repeated "
		case ir.Map:
			cardPrefix = "map<string,·> "
		}
		// kind / leaf
		custom := f.CustomType
		if v, ok := b.cfg.CustomTypes[fpath]; ok {
			custom = v
		}
		switch {
		case custom != "":
			a.Kind = spec.KCustom
			a.CustomType = custom
			if s, ok := b.cfg.Suffixes[custom]; ok {
				a.CustomSuffix = s
			} else {
				a.CustomSuffix = strings.ReplaceAll(strings.ReplaceAll(custom, "/", ""), ".", "")
			}
			a.ProtoType = "custom"
		case f.Kind == ir.KMessage:
			sub := b.file.Msg(f.Ref, f.RefDep || dep)
			if sub == nil {
				panic("unknown message " + f.Ref)
			}
			a.Msg = b.msg(sub, f.RefDep || dep, fpath, depth+1)
			a.Kind = map[ir.Card]string{ir.Single: spec.KObject, ir.Repeated: spec.KObjList, ir.Map: spec.KObjMap}[f.Card]
			a.ProtoType = "msg"
			if a.Msg.Empty {
				a.ProtoType = "msg(empty)"
			}
		default:
			a.Kind = map[ir.Card]string{ir.Single: spec.KScalar, ir.Repeated: spec.KList, ir.Map: spec.KMap}[f.Card]
			switch f.Kind {
			case ir.KScalar:
				a.Leaf = leafOf(f.Scalar)
				a.ProtoType = f.Scalar.String()
				if f.StdDur || (f.CastType != "" && (f.CastType == "time.Duration" || f.CastType == b.cfg.DurationCustomType)) {
					a.Leaf = spec.LDuration
					a.ProtoType += "+duration"
				}
			case ir.KEnum:
				a.Leaf = spec.LInt64
				a.ProtoType = "enum"
				for _, v := range b.file.Enum(f.Ref, f.RefDep || dep).Values {
					a.EnumNumbers = append(a.EnumNumbers, v.Number)
				}
			case ir.KTimestamp:
				a.Leaf = spec.LTime
				a.ProtoType = "timestamp"
			case ir.KDuration:
				a.Leaf = spec.LDuration
				a.ProtoType = "duration"
			}
			if f.CastType != "" {
				a.Cast = true
				a.ProtoType += "+cast"
			}
			if _, ok := b.cfg.SchemaTypes[fpath]; ok {
				a.Alt = true
			} else if _, ok := b.cfg.SchemaTypes[key]; ok {
				a.Alt = true
			}
			if a.Alt {
				a.ProtoType += "+schema_types"
			}
		}
		a.Class = cardPrefix + a.ProtoType
		if a.Ptr {
			a.Class += "?"
		}
		if a.Oneof != nil {
			a.Class = "oneof " + a.Class
		}
		if len(access) > 0 {
			e := "embed"
			if a.InEmbedPtr() {
				e = "embed?"
			}
			a.Class = e + " child " + a.Class
		}
		out = append(out, a)
	}
	return out
}

// Check validates that attribute names are unique per level; the corpus
// generators must guarantee it (D's naming constraint).
func Check(c *spec.Case) error {
	var walk func(m *spec.Msg) error
	walk = func(m *spec.Msg) error {
		seen := map[string]bool{}
		gos := map[string]bool{}
		for _, a := range m.Live() {
			if seen[a.Attr] {
				return fmt.Errorf("duplicate attribute %q in %s", a.Attr, m.Path)
			}
			seen[a.Attr] = true
			if a.Oneof == nil {
				if gos[a.GoName] {
					return fmt.Errorf("duplicate go name %q in %s", a.GoName, m.Path)
				}
				gos[a.GoName] = true
			}
			if a.Msg != nil {
				if err := walk(a.Msg); err != nil {
					return err
				}
			}
		}
		for _, i := range m.Injected {
			if seen[i.Name] {
				return fmt.Errorf("injected attribute %q clashes in %s", i.Name, m.Path)
			}
		}
		return nil
	}
	for _, r := range c.Roots {
		if err := walk(r); err != nil {
			return err
		}
	}
	return nil
}

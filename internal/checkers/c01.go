// Package checkers holds the offline checkers over plugin outputs and event logs.
package checkers

import (
	"bytes"
	"fmt"
	"io/ioutil"
	"path"
	"path/filepath"
	"strings"

	"google.golang.org/protobuf/encoding/protowire"

	"verif/internal/pipeline"
)

// Finding is one refuting observation of an offline checker.
type Finding struct {
	FP     string
	Msg    string
	Detail interface{}
}

// WireScan checks, at wire level, that stdout is exactly one serialized
// CodeGeneratorResponse made of file entries (15) and supported_features (2).
func WireScan(b []byte) (files int, features uint64, hasFeatures bool, problems []string) {
	for len(b) > 0 {
		num, typ, n := protowire.ConsumeTag(b)
		if n < 0 {
			problems = append(problems, "stdout is not a well-formed protobuf message (bad tag)")
			return
		}
		b = b[n:]
		switch {
		case num == 15 && typ == protowire.BytesType:
			_, m := protowire.ConsumeBytes(b)
			if m < 0 {
				problems = append(problems, "truncated file entry")
				return
			}
			files++
			b = b[m:]
		case num == 2 && typ == protowire.VarintType:
			v, m := protowire.ConsumeVarint(b)
			if m < 0 {
				problems = append(problems, "truncated supported_features")
				return
			}
			features, hasFeatures = v, true
			b = b[m:]
		case num == 1:
			problems = append(problems, "response carries an error field")
			m := protowire.ConsumeFieldValue(num, typ, b)
			if m < 0 {
				return
			}
			b = b[m:]
		default:
			problems = append(problems, fmt.Sprintf("unexpected top-level field %d (wire type %d) on stdout", num, typ))
			m := protowire.ConsumeFieldValue(num, typ, b)
			if m < 0 {
				return
			}
			b = b[m:]
		}
	}
	return
}

// License returns the license header the output must start with.
func License() string {
	b, _ := ioutil.ReadFile(filepath.Join(pipeline.RepoDir, "license.txt"))
	return string(b)
}

// C01 checks one plugin execution and its build result.
func C01(c *pipeline.Case, license string) []Finding {
	var out []Finding
	add := func(fp, msg string) { out = append(out, Finding{FP: fp, Msg: msg}) }
	if c.Plugin.TimedOut {
		add("no-exit/watchdog", "plugin did not exit within the watchdog")
		return out
	}
	if c.Plugin.Exit != 0 || c.Plugin.Err != "" {
		add("nonzero-exit", fmt.Sprintf("plugin exit=%d %s: %s", c.Plugin.Exit, c.Plugin.Err, tail(string(c.Plugin.Stderr), 4)))
		return out
	}
	files, feat, hasFeat, probs := WireScan(c.Plugin.Stdout)
	for _, p := range probs {
		add("stdout/"+strings.Fields(p)[0], p)
	}
	if !hasFeat || feat&1 == 0 {
		add("features/proto3-optional", fmt.Sprintf("supported_features=%d present=%v: proto3 optional not advertised", feat, hasFeat))
	}
	if files != 1 {
		add("file-count", fmt.Sprintf("response holds %d files, want exactly 1", files))
	}
	if c.Resp == nil || len(c.Resp.File) == 0 {
		if c.Resp != nil && c.Resp.Error != nil {
			add("response-error", "plugin reported: "+c.Resp.GetError())
		}
		return out
	}
	want := strings.TrimSuffix(path.Base(c.File.Name), ".proto") + "_terraform.go"
	if path.Base(c.TFName) != want {
		add("file-name", fmt.Sprintf("file name %q, want base name %q", c.TFName, want))
	}
	if !strings.HasPrefix(c.TFContent, license) {
		add("license", "generated file does not start with the license header")
	}
	if c.TFPackage == "" {
		add("parse", "generated file does not parse as Go")
	} else if c.TFPackage != c.ExpectTFPkg {
		add("package-clause", fmt.Sprintf("package %q, want %q", c.TFPackage, c.ExpectTFPkg))
	}
	// function set
	wantF := map[string]bool{}
	for _, r := range c.Spec.Roots {
		wantF["GenSchema"+r.Name] = true
		wantF["Copy"+r.Name+"FromTerraform"] = true
		wantF["Copy"+r.Name+"ToTerraform"] = true
	}
	for _, f := range c.Funcs {
		isGen := strings.HasPrefix(f, "GenSchema") || (strings.HasPrefix(f, "Copy") && (strings.HasSuffix(f, "FromTerraform") || strings.HasSuffix(f, "ToTerraform")))
		if !isGen {
			continue
		}
		if !wantF[f] {
			add("function-set/unexpected", "unexpected function "+f)
		}
		delete(wantF, f)
	}
	for f := range wantF {
		add("function-set/missing", "missing function "+f)
	}
	if c.GenErr != "" && !strings.HasPrefix(c.GenErr, "HARNESS") {
		add("generation", c.GenErr)
	}
	if c.BuildErr != "" {
		add("compile/"+BuildErrClass(c.BuildErr), "generated package does not compile: "+tail(c.BuildErr, 3))
	}
	return out
}

func tail(s string, n int) string {
	l := strings.Split(strings.TrimSpace(s), "\n")
	if len(l) > n {
		l = l[:n]
	}
	return strings.Join(l, " | ")
}

var _ = bytes.Equal

package checkers

import (
	"regexp"
	"strings"
)

var errClassRe = regexp.MustCompile(`(?m)^[^\s:]+\.go:\d+:\d+: (.*)$`)

// BuildErrClass reduces compiler output to a stable class.
func BuildErrClass(out string) string {
	m := errClassRe.FindStringSubmatch(out)
	if m == nil {
		return "unknown"
	}
	s := m[1]
	if strings.Contains(s, "cannot find module providing package") || strings.Contains(s, "no required module provides package") || strings.Contains(s, "is not in std") || strings.Contains(s, "invalid import path") || strings.Contains(s, "malformed import path") {
		return "unresolved-import"
	}
	s = regexp.MustCompile(`\b[A-Za-z_][A-Za-z0-9_]*\.[A-Za-z_][A-Za-z0-9_.]*`).ReplaceAllString(s, "X")
	s = regexp.MustCompile(`\b[A-Z][A-Za-z0-9_]*\b`).ReplaceAllString(s, "T")
	if len(s) > 60 {
		s = s[:60]
	}
	return s
}

#!/bin/bash
# MANIFEST.setup_cmd: build the framework from files on disk only (offline).
set -e
cd "$(dirname "$0")"
export VERIF_DIR="$PWD"
export GOFLAGS=-mod=mod GOPROXY=off GOSUMDB=off GOTOOLCHAIN=local
mkdir -p bin .cache/gobase
export GOCACHE="$PWD/.cache/gobase"
go build -o bin/vcheck ./cmd/vcheck
go build -o bin/protoc-gen-gogo github.com/gogo/protobuf/protoc-gen-gogo
# warm the base cache: harness packages, the plugin's dependencies (plain, -race, -cover)
go build ./...
T=$(mktemp -d)
trap 'rm -rf "$T"' EXIT
(cd "${VERIF_REPO:-/repo}" && CGO_ENABLED=0 go build -tags verif -o "$T/p" . || true)
(cd "${VERIF_REPO:-/repo}" && CGO_ENABLED=1 go build -tags verif -race -o "$T/pr" . || true)
(cd "${VERIF_REPO:-/repo}" && CGO_ENABLED=0 go build -tags verif -cover -o "$T/pc" . || true)
# warm the packages a driver links (runtime monitor library + generated-code dependencies)
CGO_ENABLED=0 go build ./rt/... ./internal/...
echo "setup ok: $(du -sh .cache/gobase | cut -f1) base cache"

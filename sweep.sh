#!/bin/bash
# sweep.sh <tier> <seeds...> : runs every check at the given seeds and prints the verdict lines
cd "$(dirname "$0")"
tier=$1; shift
[ -n "$VP_RUN_REPO" ] && export VERIF_REPO="$VP_RUN_REPO"
[ -x bin/vcheck ] && [ -d .cache/gobase ] || ./setup.sh >/dev/null 2>&1
for s in "$@"; do
  for p in C01 C02 C03 C04 C05 C06 C07 C08 C09 C10 C11 C12 C13 C14 C15 C16 C17 C18 C19 C20; do
    VERIF_SEED=$s ./run.sh $p $tier 2>&1 | grep -E "^(HELD|VIOLATION|INCONCLUSIVE|violation)" | cut -c1-260 | sed "s/^/seed=$s /"
  done
done
